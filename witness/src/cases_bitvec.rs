use crate::{fmt_list, parse_list, Ctx, Rng};
use sux::prelude::*;

/// Build a BitVec over caller-supplied storage: `words` backend words (arbitrary contents, so bits
/// beyond `len` are garbage), logical length `len`.
fn mk(words: &[usize], len: usize) -> BitVec<Vec<usize>> {
    unsafe { BitVec::from_raw_parts(words.to_vec(), len) }
}
fn model(words: &[usize], len: usize) -> Vec<bool> {
    (0..len).map(|i| (words[i / 64] >> (i % 64)) & 1 != 0).collect()
}

/// input encoding: [len, extra_next_calls, w0, w1, ...]
fn iter_case(ones: bool, inp: &[u64]) -> Result<(), String> {
    let len = inp[0] as usize;
    let extra = inp[1] as usize;
    let words: Vec<usize> = inp[2..].iter().map(|&x| x as usize).collect();
    if len > words.len() * 64 {
        // the public constructors accept ANY length: draining such an iterator must stay inside the backend
        // (an out-of-bounds read aborts the process under the debug UB checks; the last TRY is then the witness)
        let steps = words.len() * 64 + 4;
        if ones { let mut it = sux::bits::bit_vec::OnesIterator::new(&words, len); for _ in 0..steps { if it.next().is_none() { break; } } }
        else { let mut it = sux::bits::bit_vec::ZerosIterator::new(&words, len); for _ in 0..steps { if it.next().is_none() { break; } } }
        return Ok(());
    }
    let bv = mk(&words, len);
    let m = model(&words, len);
    let expect: Vec<usize> = (0..len).filter(|&i| m[i] == ones).collect();
    let mut got = Vec::new();
    if ones {
        let mut it = bv.iter_ones();
        while let Some(p) = it.next() { got.push(p); if got.len() > len + 2 { break; } }
        for _ in 0..extra { if let Some(p) = it.next() { return Err(format!("next() after None returned Some({})", p)); } }
    } else {
        let mut it = bv.iter_zeros();
        while let Some(p) = it.next() { got.push(p); if got.len() > len + 2 { break; } }
        for _ in 0..extra { if let Some(p) = it.next() { return Err(format!("next() after None returned Some({})", p)); } }
    }
    if got != expect { return Err(format!("yielded {:?}, expected {:?}", &got[..got.len().min(8)], &expect[..expect.len().min(8)])); }
    Ok(())
}

/// operation histories against Vec<bool>; input: [seed, nops]
fn ops_case(inp: &[u64]) -> Result<(), String> {
    let mut rng = Rng(inp[0]);
    let nops = inp[1] as usize;
    let mut bv = BitVec::new(0);
    let mut m: Vec<bool> = Vec::new();
    for step in 0..nops {
        let op = rng.below(15);
        match op {
            0 | 1 | 2 => { let b = rng.below(2) == 1; bv.push(b); m.push(b); }
            3 => { let a = bv.pop(); let b = m.pop(); if a != b { return Err(format!("step {}: pop {:?} != {:?}", step, a, b)); } }
            4 => { if !m.is_empty() { let i = rng.below(m.len() as u64) as usize; let b = rng.below(2) == 1; bv.set(i, b); m[i] = b; } }
            5 => { let nl = rng.below(200) as usize; let b = rng.below(2) == 1; bv.resize(nl, b); m.resize(nl, b); }
            6 => { let b = rng.below(2) == 1; bv.fill(b); for x in m.iter_mut() { *x = b; } }
            7 => { bv.flip(); for x in m.iter_mut() { *x = !*x; } }
            8 => { let c = bv.count_ones(); let e = m.iter().filter(|x| **x).count(); if c != e { return Err(format!("step {}: count_ones {} != {}", step, c, e)); }
                   let pc = bv.par_count_ones(); if pc != e { return Err(format!("step {}: par_count_ones {} != {}", step, pc, e)); } }
            9 => { let got: Vec<usize> = bv.iter_ones().collect(); let e: Vec<usize> = (0..m.len()).filter(|&i| m[i]).collect(); if got != e { return Err(format!("step {}: iter_ones mismatch", step)); } }
            10 => { let got: Vec<usize> = bv.iter_zeros().collect(); let e: Vec<usize> = (0..m.len()).filter(|&i| !m[i]).collect(); if got != e { return Err(format!("step {}: iter_zeros mismatch", step)); } }
            12 => { let k = rng.below(3) * rng.below(140); let add: Vec<bool> = (0..k).map(|_| rng.below(3) == 0).collect(); bv.extend(add.iter().copied()); m.extend(add); }
            13 => {
                // through the atomic form and back (single thread)
                use std::sync::atomic::Ordering::Relaxed;
                let mut a: AtomicBitVec = std::mem::replace(&mut bv, BitVec::new(0)).into();
                match rng.below(4) {
                    0 => { let b = rng.below(2) == 1; a.fill(b, Relaxed); for x in m.iter_mut() { *x = b; } }
                    1 => { a.flip(Relaxed); for x in m.iter_mut() { *x = !*x; } }
                    2 => { a.reset(Relaxed); for x in m.iter_mut() { *x = false; } }
                    _ => { if !m.is_empty() { let i = rng.below(m.len() as u64) as usize; let b = rng.below(2) == 1; let o = a.swap(i, b, Relaxed); if o != m[i] { return Err(format!("step {}: atomic swap returned {} expected {}", step, o, m[i])); } m[i] = b; } }
                }
                let e = m.iter().filter(|x| **x).count();
                if a.count_ones() != e { return Err(format!("step {}: atomic count_ones {} != {}", step, a.count_ones(), e)); }
                for i in 0..m.len() { if a.get(i, Relaxed) != m[i] { return Err(format!("step {}: atomic get({}) wrong", step, i)); } }
                bv = a.into();
            }
            _ => {
                let other: BitVec = m.iter().copied().collect();
                if !(bv == other) { return Err(format!("step {}: eq with rebuilt copy is false", step)); }
                let got: Vec<bool> = bv.iter().collect();
                if got != m { return Err(format!("step {}: iter mismatch", step)); }
            }
        }
        if bv.len() != m.len() { return Err(format!("step {}: len {} != {}", step, bv.len(), m.len())); }
        for i in 0..m.len() { if bv.get(i) != m[i] { return Err(format!("step {}: get({}) wrong", step, i)); } }
    }
    Ok(())
}

/// the rayon variants on vectors long enough to be split (the minimum split length is 100_000 words): input [len, seed]
fn par_case(inp: &[u64]) -> Result<(), String> {
    let len = inp[0] as usize; let mut rng = Rng(inp[1]);
    let mut bv = BitVec::new(len);
    bv.par_fill(true);
    if bv.count_ones() != len || bv.par_count_ones() != len { return Err(format!("par_fill(true) left {} of {} bits set", bv.count_ones(), len)); }
    for _ in 0..200 { let i = rng.below(len as u64) as usize; if !bv.get(i) { return Err(format!("par_fill(true): bit {} clear", i)); } }
    for i in len.saturating_sub(70)..len { if !bv.get(i) { return Err(format!("par_fill(true): bit {} clear", i)); } }
    let mut pos: Vec<usize> = (0..300).map(|_| rng.below(len as u64) as usize).collect(); pos.push(len - 1); pos.push(0); pos.sort(); pos.dedup();
    for &p in &pos { bv.set(p, false); }
    bv.par_flip();
    if bv.par_count_ones() != pos.len() || bv.count_ones() != pos.len() { return Err(format!("par_flip: {} ones, expected {}", bv.count_ones(), pos.len())); }
    for &p in &pos { if !bv.get(p) { return Err(format!("par_flip: bit {} not set", p)); } }
    bv.par_reset();
    if bv.count_ones() != 0 { return Err(format!("par_reset left {} ones", bv.count_ones())); }
    bv.par_fill(false);
    if bv.par_count_ones() != 0 { return Err("par_fill(false) left ones".into()); }
    Ok(())
}

/// reads over garbage storage; input [len, op, w0, w1, ...] — every read must equal the clean model
fn stale_case(inp: &[u64]) -> Result<(), String> {
    let len = inp[0] as usize;
    let words: Vec<usize> = inp[2..].iter().map(|&x| x as usize).collect();
    if len > words.len() * 64 { return Ok(()); }
    let bv = mk(&words, len);
    let m = model(&words, len);
    let clean: BitVec = m.iter().copied().collect();
    if bv.count_ones() != m.iter().filter(|x| **x).count() { return Err("count_ones trusts garbage".into()); }
    if bv.par_count_ones() != m.iter().filter(|x| **x).count() { return Err("par_count_ones trusts garbage".into()); }
    if !(bv == clean) || !(clean == bv) { return Err("eq trusts garbage".into()); }
    let got: Vec<bool> = bv.iter().collect();
    if got != m { return Err("iter mismatch".into()); }
    // writes: fill/flip must not touch storage beyond len
    let mut w = mk(&words, len);
    match inp[1] % 3 { 0 => w.fill(true), 1 => w.fill(false), _ => w.flip() }
    let (nw, _) = w.into_raw_parts();
    for p in len..words.len() * 64 {
        if (nw[p / 64] >> (p % 64)) & 1 != (words[p / 64] >> (p % 64)) & 1 { return Err(format!("write changed storage bit {} beyond len {}", p, len)); }
    }
    // the atomic form over the same garbage storage
    {
        use std::sync::atomic::{AtomicUsize, Ordering::Relaxed};
        let mk_a = || unsafe { AtomicBitVec::from_raw_parts(words.iter().map(|&x| AtomicUsize::new(x)).collect::<Vec<_>>(), len) };
        let a = mk_a();
        if a.count_ones() != m.iter().filter(|x| **x).count() { return Err("atomic count_ones trusts garbage".into()); }
        for i in 0..len { if a.get(i, Relaxed) != m[i] { return Err(format!("atomic get({}) wrong", i)); } }
        let mut a = mk_a();
        match inp[1] % 3 { 0 => a.fill(true, Relaxed), 1 => a.fill(false, Relaxed), _ => a.flip(Relaxed) }
        for i in 0..len { let want = match inp[1] % 3 { 0 => true, 1 => false, _ => !m[i] }; if a.get(i, Relaxed) != want { return Err(format!("atomic fill/flip: bit {} wrong", i)); } }
        let (nw, _) = a.into_raw_parts();
        for p in len..words.len() * 64 {
            if (nw[p / 64].load(Relaxed) >> (p % 64)) & 1 != (words[p / 64] >> (p % 64)) & 1 { return Err(format!("atomic write changed storage bit {} beyond len {}", p, len)); }
        }
    }
    Ok(())
}

pub fn run(case: &str, ctx: &mut Ctx, one: Option<&str>, rng: &mut Rng, budget: usize) {
    if let Some(s) = one {
        let inp = parse_list(s);
        ctx.trial(s, false, || run_one(case, &inp));
        return;
    }
    match case {
        "bitvec_iter_ones" | "bitvec_iter_zeros" | "bitvec_stale" => {
            // small scope first: 0..=2 words, lengths around word boundaries, a few patterns
            let pats: [u64; 6] = [0, u64::MAX, 1, 1 << 63, 0xAAAA_AAAA_AAAA_AAAA, 0x8000_0000_0000_0001];
            for nw in 0..=3usize {
                for len in 0..=(nw * 64) {
                    if !(len % 64 <= 2 || len % 64 >= 62) { continue; }
                    for &p in pats.iter() {
                        for extra in 0..3u64 {
                            let mut v = vec![len as u64, extra];
                            for k in 0..nw { v.push(p.rotate_left(k as u32)); }
                            let s = fmt_list(&v);
                            ctx.trial(&s, false, || run_one(case, &v));
                        }
                    }
                }
            }
            if case != "bitvec_stale" {
                for nw in 0..=2usize { for len in [1u64, 64, 65, 200, 1000] { let mut v = vec![len, 0]; for _ in 0..nw { v.push(0); } let s = fmt_list(&v); ctx.trial(&s, false, || run_one(case, &v)); } }
            }
            for _ in 0..budget {
                let nw = rng.below(5) as usize;
                let len = if nw == 0 { 0 } else { rng.below((nw * 64 + 1) as u64) };
                let mut v = vec![len, rng.below(3)];
                for _ in 0..nw { let r = rng.next(); v.push(match rng.below(4) { 0 => 0, 1 => u64::MAX, _ => r }); }
                let s = fmt_list(&v);
                ctx.trial(&s, false, || run_one(case, &v));
            }
        }
        _ => {
            // the rayon variants: inputs [len, seed, 0] with more than 100_000 words, full-word counts that are not multiples of the split length
            for len in [64u64 * 100_000 + 64 * 123 + 17, 64 * 250_017, 64 * 100_000, 64 * 99_999 + 5] { let v = vec![len, 7 + len % 13, 0]; let s = fmt_list(&v); ctx.trial(&s, false, || run_one(case, &v)); }
            for i in 0..budget {
                let v = vec![rng.next(), 5 + (i as u64 % 60)];
                let s = fmt_list(&v);
                ctx.trial(&s, false, || run_one(case, &v));
            }
        }
    }
}

fn run_one(case: &str, inp: &[u64]) -> Result<(), String> {
    match case {
        "bitvec_iter_ones" => iter_case(true, inp),
        "bitvec_iter_zeros" => iter_case(false, inp),
        "bitvec_stale" => stale_case(inp),
        _ if inp.len() == 3 => par_case(inp),
        _ => ops_case(inp),
    }
}
