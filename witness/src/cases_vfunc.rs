use crate::{fmt_list, parse_list, Ctx, Rng};
use dsi_progress_logger::no_logging;
use sux::bits::BitFieldVec;
use sux::func::{shard_edge::*, VBuilder, VFunc};
use sux::utils::FromIntoIterator;

/// exploration of the assumed builder contract (A-C08a / C07): a built function returns the stored value for every key,
/// whatever the expected_num_keys hint says, for the default shard edges, online and offline stores, low_mem on and off.
/// input: [n, edge (0 Shards, 1 NoShards/[u64;2], 2 NoShards/[u64;1], 3 FullSigs), hint (0 exact, 1 none, 2 4n/3, 3 n/2), flags (1 offline, 2 low_mem, 4 boxed backend, 8 a single worker thread), seed]
fn case(inp: &[u64]) -> Result<(), String> {
    let (n, edge, hintm, flags, seed) = (inp[0] as usize, inp[1] % 4, inp[2] % 4, inp[3], inp[4]);
    let hint: Option<usize> = match hintm { 0 => Some(n), 1 => None, 2 => Some(n + n / 3), _ => Some(n / 2) };
    let val = move |k: usize| -> usize { if k == 0 { 0xFFFF } else { (k.wrapping_mul(0x9E37_79B9_7F4A_7C15usize) ^ seed as usize) & 0xFFFF } };   // the largest value is 2^16 - 1
    macro_rules! go { ($S:ty, $E:ty) => {{
        if flags & 4 == 0 {
            let mut b = VBuilder::<usize, BitFieldVec<usize>, $S, $E>::default().offline(flags & 1 != 0).low_mem(flags & 2 != 0).seed(seed).max_num_threads(if flags & 8 != 0 { 1 } else { 8 });
            if let Some(h) = hint { b = b.expected_num_keys(h); }
            let f: VFunc<usize, usize, BitFieldVec<usize>, $S, $E> = b.try_build_func(FromIntoIterator::from(0..n), FromIntoIterator::from((0..n).map(val)), no_logging![]).map_err(|e| format!("build failed: {}", e))?;
            if f.len() != n { return Err(format!("len {} != {}", f.len(), n)); }
            for k in 0..n { if f.get(k) != val(k) { return Err(format!("get({}) = {} expected {}", k, f.get(k), val(k))); } }
            // space (C11): b-bit values in at most 1.135 n b bits from 100000 keys upward (default sharded edge; 1.15 with the shard imbalance), 1.23 n b below
            { use mem_dbg::{MemSize, SizeFlags}; let bits = 8.0 * f.mem_size(SizeFlags::default()) as f64; let b = 16.0;
              if edge == 0 && n >= 100_000 && bits > 1.15 * n as f64 * b + 8192.0 { return Err(format!("{} bits for {} keys of 16-bit values: {:.4} n b", bits, n, bits / (n as f64 * b))); }
              if n >= 1000 && bits > 1.23 * n as f64 * b + 8192.0 { return Err(format!("{} bits for {} keys of 16-bit values: {:.4} n b > 1.23 n b", bits, n, bits / (n as f64 * b))); } }
            // the unaligned query path (values have at most 16 bits: within the widths get_unaligned admits; the builder pads the backend)
            for k in 0..n { if f.get_unaligned(k) != val(k) { return Err(format!("get_unaligned({}) = {} expected {}", k, f.get_unaligned(k), val(k))); } }
        } else {
            let mut b = VBuilder::<usize, Box<[usize]>, $S, $E>::default().offline(flags & 1 != 0).low_mem(flags & 2 != 0).seed(seed).max_num_threads(if flags & 8 != 0 { 1 } else { 8 });
            if let Some(h) = hint { b = b.expected_num_keys(h); }
            let f: VFunc<usize, usize, Box<[usize]>, $S, $E> = b.try_build_func(FromIntoIterator::from(0..n), FromIntoIterator::from((0..n).map(val)), no_logging![]).map_err(|e| format!("build failed: {}", e))?;
            for k in 0..n { if f.get(k) != val(k) { return Err(format!("get({}) = {} expected {} (boxed)", k, f.get(k), val(k))); } }
        }
        Ok(())
    }} }
    match edge {
        0 => go!([u64; 2], FuseLge3Shards),
        1 => go!([u64; 2], FuseLge3NoShards),
        2 => go!([u64; 1], FuseLge3NoShards),
        _ => go!([u64; 2], FuseLge3FullSigs),
    }
}

pub fn run(case_name: &str, ctx: &mut Ctx, one: Option<&str>, rng: &mut Rng, budget: usize) {
    let _ = case_name;
    if let Some(s) = one { let inp = parse_list(s); ctx.trial(s, false, || case(&inp)); return; }
    for edge in 0..4u64 { for n in [0u64, 1, 2, 3, 10, 100, 101, 1000] { for hint in 0..4u64 { for flags in [0u64, 1, 4] {
        let v = vec![n, edge, hint, flags, 3 + n]; let s = fmt_list(&v); ctx.trial(&s, false, || case(&v)); } } } }
    if budget >= 1000 {
        for (n, edge, hint, flags) in [(100_000u64, 0u64, 0u64, 0u64), (120_000, 0, 1, 0), (90_000, 0, 2, 1), (199_990, 0, 0, 0), (250_000, 3, 3, 0), (150_000, 3, 0, 2), (300_000, 1, 1, 4), (200_000, 2, 2, 0), (810_000, 0, 0, 2), (120_000, 0, 0, 8), (250_000, 3, 0, 8)] {
            let v = vec![n, edge, hint, flags, 11 + n]; let s = fmt_list(&v); ctx.trial(&s, false, || case(&v)); }
    }
    for _ in 0..budget.min(60) { let v = vec![rng.below(5000), rng.below(4), rng.below(4), rng.below(16), rng.next()]; let s = fmt_list(&v); ctx.trial(&s, false, || case(&v)); }
}
