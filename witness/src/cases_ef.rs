use crate::{fmt_list, parse_list, Ctx, Rng};
use sux::prelude::*;
use sux::dict::elias_fano::EfSeqDict;

/// input: [u_extra, k (iter_from start or query selector), v0 <= v1 <= ... ] ; u = max + u_extra
fn build(inp: &[u64]) -> (Vec<usize>, usize, EfSeqDict) {
    let vals: Vec<usize> = inp[2..].iter().map(|&x| x as usize).collect();
    let u = vals.iter().copied().max().unwrap_or(0).saturating_add(inp[0] as usize);
    let mut b = EliasFanoBuilder::new(vals.len(), u);
    for &v in &vals { b.push(v); }
    (vals, u, b.build_with_seq_and_dict())
}

fn seq_case(inp: &[u64]) -> Result<(), String> {
    let (vals, _u, ef) = build(inp);
    let n = vals.len();
    if ef.len() != n { return Err(format!("len {} != {}", ef.len(), n)); }
    for i in 0..n { if ef.get(i) != vals[i] { return Err(format!("get({}) = {} expected {}", i, ef.get(i), vals[i])); } }
    let got: Vec<usize> = ef.iter().collect();
    if got != vals { return Err("iter() mismatch".into()); }
    for k in 0..=n {
        let it = ef.iter_from(k);
        if it.len() != n - k { return Err(format!("iter_from({}).len() = {} expected {}", k, it.len(), n - k)); }
        let got: Vec<usize> = it.collect();
        if got[..] != vals[k..] { return Err(format!("iter_from({}) mismatch", k)); }
        // exact remaining-length hints at every step of the pass
        let mut it = ef.iter_from(k);
        for j in k..=n {
            if it.size_hint() != (n - j, Some(n - j)) { return Err(format!("iter_from({}): size_hint() = {:?} after {} items, expected exactly {}", k, it.size_hint(), j - k, n - j)); }
            if it.next().is_none() != (j == n) { return Err(format!("iter_from({}): next() at {}", k, j)); }
        }
    }
    Ok(())
}

fn dict_case(inp: &[u64]) -> Result<(), String> {
    let (vals, u, ef) = build(inp);
    let n = vals.len();
    let mut qs: Vec<usize> = vec![0, 1, u, u.saturating_add(1), u.saturating_mul(2), usize::MAX, usize::MAX - 1, usize::MAX / 2];
    for &v in &vals { qs.push(v); qs.push(v.saturating_add(1)); qs.push(v.saturating_sub(1)); }
    qs.push(inp[1] as usize);
    for &q in &qs {
        // index_of
        let e = vals.iter().position(|&x| x == q);
        match (ef.index_of(q), e) {
            (None, None) => {}
            (Some(i), Some(_)) => { if i >= n || vals[i] != q { return Err(format!("index_of({}) = Some({}) does not hold it", q, i)); } }
            (g, e) => return Err(format!("index_of({}) = {:?} expected {:?}", q, g, e)),
        }
        if ef.contains(q) != e.is_some() { return Err(format!("contains({}) wrong", q)); }
        let chk = |name: &str, got: Option<(usize, usize)>, want: Option<usize>| -> Result<(), String> {
            match (got, want) {
                (None, None) => Ok(()),
                (Some((i, v)), Some(w)) => if i < n && vals[i] == v && v == w { Ok(()) } else { Err(format!("{}({}) = ({}, {}) expected value {}", name, q, i, v, w)) },
                (g, w) => Err(format!("{}({}) = {:?} expected {:?}", name, q, g, w)),
            }
        };
        chk("succ", ef.succ(q), vals.iter().copied().filter(|&x| x >= q).min())?;
        chk("succ_strict", ef.succ_strict(q), vals.iter().copied().filter(|&x| x > q).min())?;
        chk("pred", ef.pred(q), vals.iter().copied().filter(|&x| x <= q).max())?;
        chk("pred_strict", ef.pred_strict(q), vals.iter().copied().filter(|&x| x < q).max())?;
    }
    Ok(())
}


/// large sequences (the select structures over the high bits leave their smallest span classes only for n in the 10^4..10^6 range);
/// input: [n, gap_bits, duplicates_per_mille, seed]; values are generated from the seed, checks are sampled
fn big_case(inp: &[u64]) -> Result<(), String> {
    let (n, gb, dup, seed) = (inp[0] as usize, inp[1].min(40), inp[2], inp[3]);
    let mut rng = Rng(seed | 1);
    let mut vals: Vec<usize> = Vec::with_capacity(n);
    let mut cur: usize = rng.below(1 << gb.min(20)) as usize;
    for _ in 0..n {
        vals.push(cur);
        if rng.below(1000) >= dup { cur += 1 + (rng.next() >> (64 - gb.max(1))) as usize; if rng.below(50) == 0 { cur += (rng.next() >> (64 - (gb + 6).min(45))) as usize; } }
    }
    let u = vals.last().copied().unwrap_or(0) + (rng.below(3) * rng.below(1000)) as usize;
    let mut b = EliasFanoBuilder::new(n, u);
    for &v in &vals { b.push(v); }
    let ef: EfSeqDict = b.build_with_seq_and_dict();
    if ef.len() != n { return Err(format!("len {} != {}", ef.len(), n)); }
    let idx: Vec<usize> = if n == 0 { vec![] } else { let mut v: Vec<usize> = (0..200).map(|_| rng.below(n as u64) as usize).collect(); v.extend([0, n - 1, n / 2, (n - 1).min(4095), (n - 1).min(4096), (n - 1).min(8191)]); v };
    for &i in &idx { if ef.get(i) != vals[i] { return Err(format!("get({}) = {} expected {}", i, ef.get(i), vals[i])); } }
    for &i in idx.iter().take(20) {
        let mut it = ef.iter_from(i);
        if it.len() != n - i { return Err(format!("iter_from({}).len()", i)); }
        for k in i..(i + 300).min(n) { if it.next() != Some(vals[k]) { return Err(format!("iter_from({}) wrong at {}", i, k)); } }
    }
    let mut qs: Vec<usize> = vec![0, u, u + 1, usize::MAX, u / 2];
    for &i in &idx { qs.push(vals[i]); qs.push(vals[i] + 1); qs.push(vals[i].saturating_sub(1)); }
    for &q in &qs {
        let lo = vals.partition_point(|&x| x < q);       // first >= q
        let hi = vals.partition_point(|&x| x <= q);      // first > q
        let chk = |name: &str, got: Option<(usize, usize)>, want: Option<usize>| -> Result<(), String> {
            match (got, want) {
                (None, None) => Ok(()),
                (Some((i, v)), Some(w)) => if i < n && vals[i] == v && v == w { Ok(()) } else { Err(format!("{}({}) = ({}, {}) expected value {}", name, q, i, v, w)) },
                (g, w) => Err(format!("{}({}) = {:?} expected {:?}", name, q, g, w)),
            }
        };
        chk("succ", ef.succ(q), if lo < n { Some(vals[lo]) } else { None })?;
        chk("succ_strict", ef.succ_strict(q), if hi < n { Some(vals[hi]) } else { None })?;
        chk("pred", ef.pred(q), if hi == 0 { None } else { Some(vals[hi - 1]) })?;
        chk("pred_strict", ef.pred_strict(q), if lo == 0 { None } else { Some(vals[lo - 1]) })?;
        let present = lo < hi;
        match ef.index_of(q) { None => if present { return Err(format!("index_of({}) = None but present", q)); }, Some(i) => if !(i < n && vals[i] == q) { return Err(format!("index_of({}) = Some({}) does not hold it", q, i)); } }
    }
    Ok(())
}

/// builder rejects bad pushes: input [n, u, seed]
fn builder_case(inp: &[u64]) -> Result<(), String> {
    let n = inp[0] as usize; let u = inp[1] as usize;
    let mut rng = Rng(inp[2]);
    let mut b = EliasFanoBuilder::new(n, u);
    let mut acc: Vec<usize> = Vec::new();
    for _ in 0..n + 3 {
        let last = acc.last().copied().unwrap_or(0);
        let v = match rng.below(6) { 0 => u.saturating_add(1 + rng.below(5) as usize), 1 => last.saturating_sub(1 + rng.below(3) as usize), _ => { if u > last { last + (rng.below((u - last + 1) as u64) as usize) } else { last } } };
        let legal = acc.len() < n && v <= u && v >= last;
        let r = std::panic::catch_unwind(std::panic::AssertUnwindSafe(|| b.push(v)));
        match (r.is_ok(), legal) {
            (true, true) => acc.push(v),
            (false, false) => {}
            (true, false) => return Err(format!("illegal push({}) accepted (last {}, u {}, count {}/{})", v, last, u, acc.len(), n)),
            (false, true) => return Err(format!("legal push({}) rejected", v)),
        }
    }
    if acc.len() == n {
        let ef = b.build_with_seq();
        for i in 0..n { if ef.get(i) != acc[i] { return Err(format!("get({}) = {} expected {}", i, ef.get(i), acc[i])); } }
    }
    // the concurrent builder, used sequentially, in a scrambled index order
    if !acc.is_empty() || n == 0 {
        let cb = sux::dict::EliasFanoConcurrentBuilder::new(acc.len(), u);
        let mut order: Vec<usize> = (0..acc.len()).collect();
        for i in (1..order.len()).rev() { let j = rng.below(i as u64 + 1) as usize; order.swap(i, j); }
        for &i in &order { unsafe { cb.set(i, acc[i]) }; }
        let ef = cb.build();
        let sel = unsafe { ef.map_high_bits(SelectAdaptConst::<_, _, 12, 3>::new) };
        for i in 0..acc.len() { if sel.get(i) != acc[i] { return Err(format!("concurrent builder: get({}) = {} expected {}", i, sel.get(i), acc[i])); } }
    }
    // From<slice>: monotone input gives the sequence, a descent anywhere is rejected by a panic
    { let ef: EliasFano = EliasFano::from(&acc[..]);
      if ef.len() != acc.len() { return Err("From<slice>: len".into()); }
      let sel = unsafe { ef.map_high_bits(SelectAdaptConst::<_, _, 12, 3>::new) };
      for i in 0..acc.len() { if sel.get(i) != acc[i] { return Err(format!("From<slice>: get({})", i)); } } }
    if acc.len() >= 2 {
        let k = 1 + (rng.below((acc.len() - 1) as u64) as usize);
        let mut bad = acc.clone();
        if bad[k - 1] > 0 { bad[k] = bad[k - 1] - 1;
            let r = std::panic::catch_unwind(|| { let _e: EliasFano = EliasFano::from(&bad[..]); });
            if r.is_ok() { return Err(format!("From<slice> accepted a descent at index {}", k)); } }
        // extend after push: the order check must remember the values already pushed
        let mut b2 = EliasFanoBuilder::new(acc.len(), u);
        b2.push(acc[k]);
        let r = std::panic::catch_unwind(std::panic::AssertUnwindSafe(|| b2.extend([acc[k].saturating_sub(1)])));
        if r.is_ok() && acc[k] > 0 { return Err("extend accepted a value below the last pushed one".into()); }
    }
    Ok(())
}

fn gen(rng: &mut Rng) -> Vec<u64> {
    let n = rng.below(150) as usize;
    let style = rng.below(5);
    let mut v = vec![rng.below(3) * rng.below(1000), rng.next() >> rng.below(60)];
    let mut cur: u64 = 0;
    for _ in 0..n {
        let step = match style { 0 => rng.below(3), 1 => rng.below(1000), 2 => if rng.below(20) == 0 { rng.below(1 << 20) } else { 0 }, 3 => rng.below(1 << 14) * rng.below(2), _ => rng.below(70) };
        cur = cur.saturating_add(step).min(1 << 40);
        v.push(cur);
    }
    v
}

pub fn run(case: &str, ctx: &mut Ctx, one: Option<&str>, rng: &mut Rng, budget: usize) {
    let f = |c: &str, inp: &[u64]| match c { "ef_seq" => seq_case(inp), "ef_dict" => dict_case(inp), "ef_big" => big_case(inp), _ => builder_case(inp) };
    if let Some(s) = one { let inp = parse_list(s); ctx.trial(s, false, || f(case, &inp)); return; }
    if case == "ef_big" {
        for n in [0u64, 1, 4096, 4097, 100_000, 600_000] { for gb in [0u64, 1, 3, 8, 13, 20] { for dup in [0u64, 300, 990] {
            let v = vec![n, gb, dup, 17 + n + gb]; let s = fmt_list(&v); ctx.trial(&s, false, || f(case, &v)); } } }
        for _ in 0..budget.min(300) { let v = vec![match rng.below(3) { 0 => rng.below(3000), 1 => rng.below(60_000), _ => rng.below(700_000) }, rng.below(22), [0, 0, 100, 900, 999][rng.below(5) as usize], rng.next()]; let s = fmt_list(&v); ctx.trial(&s, false, || f(case, &v)); }
        return;
    }
    if case == "ef_builder" {
        for n in [0u64, 1, 2, 5, 64] { for u in [0u64, 1, 10, 1000, 1 << 30] { let v = vec![n, u, n * 31 + u]; let s = fmt_list(&v); ctx.trial(&s, false, || f(case, &v)); } }
        for _ in 0..budget.min(500) { let v = vec![rng.below(80), rng.next() >> rng.below(64), rng.next()]; let s = fmt_list(&v); ctx.trial(&s, false, || f(case, &v)); }
        return;
    }
    // small scope: empty, singletons, duplicates, big gaps (empty high-bits words), values at 0 and at u
    let fixed: Vec<Vec<u64>> = vec![
        vec![0, 0], vec![5, 3], vec![0, 0, 0], vec![0, 0, 7], vec![3, 9, 0, 0, 0, 0], vec![0, 5, 1, 50, 100], vec![0, 5, 0, 2, 8, 10],
        { let mut v = vec![0, 105]; v.extend(0..100u64); v.push(100000); v },
        { let mut v = vec![0, 0]; v.extend(std::iter::repeat(0u64).take(500)); v.extend(std::iter::repeat(400u64).take(100)); v },
        { let mut v = vec![0, 0]; v.extend((0..64u64).map(|i| i * 16)); v },
        { let mut v = vec![7, 1248]; v.extend((0..50u64).map(|i| i * 25)); v },
    ];
    for v in fixed.iter() { let s = fmt_list(v); ctx.trial(&s, false, || f(case, v)); }
    for _ in 0..budget.min(800) { let v = gen(rng); let s = fmt_list(&v); ctx.trial(&s, false, || f(case, &v)); }
}
