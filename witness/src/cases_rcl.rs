use crate::{fmt_list, parse_list, Ctx, Rng};
use sux::prelude::*;

/// input: [k, sorted(0/1), seed, n, style]
fn case(inp: &[u64]) -> Result<(), String> {
    let k = (inp[0] as usize).max(1);
    let sorted = inp[1] % 2 == 1;
    let mut rng = Rng(inp[2]);
    let n = inp[3] as usize;
    let style = inp[4];
    let alpha: &[u8] = if style % 2 == 0 { b"ab" } else { b"abcdefghijklmnopqrstuvwxyz\xc3\xa9" };
    let mut strs: Vec<String> = Vec::new();
    for _ in 0..n {
        let len = match style % 3 { 0 => rng.below(5), 1 => rng.below(30), _ => if rng.below(10) == 0 { 120 + rng.below(100) } else { rng.below(8) } } as usize;
        let mut s = String::new();
        if !strs.is_empty() && rng.below(3) == 0 { let p = &strs[rng.below(strs.len() as u64) as usize]; let cut = rng.below(p.chars().count() as u64 + 1) as usize; s = p.chars().take(cut).collect(); }
        for _ in 0..len { let c = alpha[rng.below(alpha.len() as u64 - 2) as usize] as char; s.push(c); }
        if style % 5 == 4 && rng.below(4) == 0 { s.push('é'); }
        strs.push(s);
    }
    if sorted { strs.sort(); }
    let mut b = RearCodedListBuilder::new(k);
    for s in &strs { b.push(s); }
    let rcl = b.build();
    if rcl.len() != n { return Err(format!("len {} != {}", rcl.len(), n)); }
    let mut buf = Vec::new();
    for i in 0..n {
        if rcl.get(i) != strs[i] { return Err(format!("get({}) = {:?} expected {:?}", i, rcl.get(i), strs[i])); }
        rcl.get_in_place(i, &mut buf);
        if buf != strs[i].as_bytes() { return Err(format!("get_in_place({}) wrong", i)); }
    }
    let got: Vec<String> = rcl.iter().collect();
    if got != strs { return Err("iter() mismatch".into()); }
    for j in 0..=n {
        let it = rcl.iter_from(j);
        if it.len() != n - j { return Err(format!("iter_from({}).len() = {} expected {}", j, it.len(), n - j)); }
        let got: Vec<String> = it.collect();
        if got[..] != strs[j..] { return Err(format!("iter_from({}) mismatch", j)); }
    }
    let mut probes: Vec<String> = strs.clone();
    for s in strs.iter().take(20) { probes.push(format!("{}a", s)); if !s.is_empty() { probes.push(s[..s.char_indices().last().unwrap().0].to_string()); } }
    probes.push(String::new()); probes.push("zzzz".into());
    for p in &probes {
        let e = strs.iter().position(|x| x == p);
        match (rcl.index_of(p.as_str()), e) {
            (None, None) => {}
            (Some(i), Some(_)) => if i >= n || &strs[i] != p { return Err(format!("index_of({:?}) = Some({}) does not hold it", p, i)); },
            (g, e) => return Err(format!("index_of({:?}) = {:?} expected {:?}", p, g, e)),
        }
        if rcl.contains(p.as_str()) != e.is_some() { return Err(format!("contains({:?}) wrong", p)); }
    }
    Ok(())
}

pub fn run(_case: &str, ctx: &mut Ctx, one: Option<&str>, rng: &mut Rng, budget: usize) {
    if let Some(s) = one { let inp = parse_list(s); ctx.trial(s, false, || case(&inp)); return; }
    for k in [1u64, 2, 3, 4, 8] { for sorted in 0..2u64 { for n in [0u64, 1, 2, 3, 4, 8, 9, 17] { for style in 0..5u64 {
        let v = vec![k, sorted, 11 + n * 7 + style, n, style]; let s = fmt_list(&v); ctx.trial(&s, false, || case(&v));
    } } } }
    for _ in 0..budget.min(400) { let v = vec![1 + rng.below(9), rng.below(2), rng.next(), rng.below(60), rng.below(15)]; let s = fmt_list(&v); ctx.trial(&s, false, || case(&v)); }
}
