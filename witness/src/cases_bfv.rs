use crate::{fmt_list, parse_list, Ctx, Rng};
use sux::prelude::*;

macro_rules! bfv_cases {
    ($ops:ident, $copy:ident, $unal:ident, $apply:ident, $W:ty) => {
        /// operation histories against Vec<W>; input [width, seed, nops, start_kind]
        fn $ops(inp: &[u64]) -> Result<(), String> {
            let width = inp[0] as usize;
            let mut rng = Rng(inp[1]);
            let nops = inp[2] as usize;
            let bits = <$W>::BITS as usize;
            if width > bits { return Ok(()); }
            let maxv: $W = if width == 0 { 0 } else { <$W>::MAX >> (bits - width) };
            let mut v: BitFieldVec<$W> = match inp[3] % 3 {
                0 => BitFieldVec::<$W>::new(width, 0),
                1 => BitFieldVec::<$W>::with_capacity(width, (rng.below(20)) as usize),
                _ => BitFieldVec::<$W>::new(width, rng.below(70) as usize),
            };
            let mut m: Vec<$W> = vec![0; v.len()];
            let val = |rng: &mut Rng| -> $W { match rng.below(4) { 0 => maxv, 1 => 0, _ => (rng.next() as $W) & maxv } };
            for step in 0..nops {
                match rng.below(11) {
                    0 | 1 | 2 => { let x = val(&mut rng); v.push(x); m.push(x); }
                    3 => { let a = v.pop(); let b = m.pop(); if a != b { return Err(format!("step {}: pop {:?} != {:?}", step, a, b)); } }
                    4 | 5 => { if !m.is_empty() { let i = rng.below(m.len() as u64) as usize; let x = val(&mut rng); v.set(i, x); m[i] = x; } }
                    6 => { let nl = rng.below(90) as usize; let x = val(&mut rng); v.resize(nl, x); m.resize(nl, x); }
                    7 => { if rng.below(4) == 0 { v.clear(); m.clear(); } }
                    8 => { let got: Vec<$W> = v.iter().collect(); if got != m { return Err(format!("step {}: iter mismatch", step)); }
                           if !m.is_empty() { let f = rng.below(m.len() as u64 + 1) as usize; let got: Vec<$W> = v.iter_from(f).collect(); if got[..] != m[f..] { return Err(format!("step {}: iter_from({}) mismatch", step, f)); } } }
                    9 if rng.below(2) == 0 => {
                        // reverse unchecked iteration from every start
                        let f = rng.below(m.len() as u64 + 1) as usize;
                        let mut it = (&v).into_rev_unchecked_iter_from(f);
                        for i in (0..f).rev() { let x = unsafe { it.next_unchecked() }; if x != m[i] { return Err(format!("step {}: reverse unchecked iteration from {} at {} = {} expected {}", step, f, i, x, m[i])); } }
                        let mut it = (&v).into_unchecked_iter_from(f);
                        for i in f..m.len() { let x = unsafe { it.next_unchecked() }; if x != m[i] { return Err(format!("step {}: unchecked iteration from {} at {} = {} expected {}", step, f, i, x, m[i])); } }
                    }
                    9 => { let mut o = BitFieldVec::<$W>::new(width, 0); for &x in m.iter() { o.push(x); } if !(v == o) { return Err(format!("step {}: eq with rebuilt copy false", step)); } }
                    _ => { if rng.below(5) == 0 { v.reset(); for x in m.iter_mut() { *x = 0; } } }
                }
                if v.len() != m.len() { return Err(format!("step {}: len {} != {}", step, v.len(), m.len())); }
                for i in 0..m.len() { if v.get(i) != m[i] { return Err(format!("step {}: get({}) = {} expected {}", step, i, v.get(i), m[i])); } }
            }
            Ok(())
        }

        /// copy; input [width, src_len, dst_len, from, to, len, seed]
        fn $copy(inp: &[u64]) -> Result<(), String> {
            let width = inp[0] as usize;
            let bits = <$W>::BITS as usize;
            if width > bits { return Ok(()); }
            let (sl, dl, from, to, len) = (inp[1] as usize, inp[2] as usize, inp[3] as usize, inp[4] as usize, inp[5] as usize);
            if from > sl || to > dl { return Ok(()); }
            let mut rng = Rng(inp[6]);
            let maxv: $W = if width == 0 { 0 } else { <$W>::MAX >> (bits - width) };
            let mut src = BitFieldVec::<$W>::new(width, sl);
            let mut dst = BitFieldVec::<$W>::new(width, dl);
            for i in 0..sl { src.set(i, (rng.next() as $W) & maxv); }
            for i in 0..dl { dst.set(i, (rng.next() as $W) & maxv); }
            let mut expect: Vec<$W> = (0..dl).map(|i| dst.get(i)).collect();
            let n = len.min(sl - from).min(dl - to);
            for i in 0..n { expect[to + i] = src.get(from + i); }
            src.copy(from, &mut dst, to, len);
            for i in 0..dl { if dst.get(i) != expect[i] { return Err(format!("after copy dst[{}] = {} expected {}", i, dst.get(i), expect[i])); } }
            // the same copy between plain slices of words (the slice-backed implementation of BitFieldSliceMut::copy)
            { use sux::traits::bit_field_slice::BitFieldSliceMut;
              let sv: Vec<$W> = (0..sl).map(|i| src.get(i)).collect();
              let mut dv: Vec<$W> = (0..dl).map(|_| (rng.next() as $W) & maxv).collect();
              let mut ev = dv.clone();
              for i in 0..n { ev[to + i] = sv[from + i]; }
              BitFieldSliceMut::copy(&sv, from, &mut dv, to, len);
              if dv != ev { return Err(format!("slice copy(from {}, to {}, len {}) over lengths {} -> {} differs from the element-wise copy", from, to, len, sl, dl)); } }
            Ok(())
        }

        /// get_unaligned == get; input [width, len, seed]
        fn $unal(inp: &[u64]) -> Result<(), String> {
            let width = inp[0] as usize;
            let bits = <$W>::BITS as usize;
            if !(width <= bits - 8 + 2 || width == bits - 8 + 4 || width == bits) { return Ok(()); }
            let len = inp[1] as usize;
            let mut rng = Rng(inp[2]);
            let maxv: $W = if width == 0 { 0 } else { <$W>::MAX >> (bits - width) };
            let mut v = BitFieldVec::<$W>::new_unaligned(width, len);
            for i in 0..len { v.set(i, (rng.next() as $W) & maxv); }
            for i in 0..len { let a = v.get_unaligned(i); if a != v.get(i) { return Err(format!("get_unaligned({}) = {} but get = {}", i, a, v.get(i))); } }
            Ok(())
        }

        /// apply_in_place; input [width, len, spare_words, seed]
        fn $apply(inp: &[u64]) -> Result<(), String> {
            let width = inp[0] as usize;
            let bits = <$W>::BITS as usize;
            if width > bits { return Ok(()); }
            let len = inp[1] as usize;
            let spare = inp[2] as usize;
            let mut rng = Rng(inp[3]);
            let maxv: $W = if width == 0 { 0 } else { <$W>::MAX >> (bits - width) };
            let nw = ((len * width + bits - 1) / bits).max(1) + spare;
            let words: Vec<$W> = (0..nw).map(|_| rng.next() as $W).collect();
            let mut v = unsafe { BitFieldVec::<$W, Vec<$W>>::from_raw_parts(words.clone(), width, len) };
            let before: Vec<$W> = (0..len).map(|i| v.get(i)).collect();
            let mut seen: Vec<$W> = Vec::new();
            v.apply_in_place(|x| { seen.push(x); (!x) & maxv });
            if seen != before { return Err(format!("f called {} times on {} elements / wrong arguments or order", seen.len(), len)); }
            for i in 0..len { if v.get(i) != (!before[i]) & maxv { return Err(format!("element {} not stored", i)); } }
            let (nwords, _, _) = v.into_raw_parts();
            for p in len * width..nw * bits {
                if (nwords[p / bits] >> (p % bits)) & 1 != (words[p / bits] >> (p % bits)) & 1 { return Err(format!("storage bit {} beyond len*width changed", p)); }
            }
            Ok(())
        }
    };
}

bfv_cases!(ops_u8, copy_u8, unal_u8, apply_u8, u8);
bfv_cases!(ops_u16, copy_u16, unal_u16, apply_u16, u16);
bfv_cases!(ops_u32, copy_u32, unal_u32, apply_u32, u32);
bfv_cases!(ops_u64, copy_u64, unal_u64, apply_u64, u64);
bfv_cases!(ops_u128, copy_u128, unal_u128, apply_u128, u128);
bfv_cases!(ops_usize, copy_usize, unal_usize, apply_usize, usize);


/// from_slice / extend / try_chunks_mut / set through chunks; input [src_type, dst_type, width, len, chunk, seed]
fn misc_case(inp: &[u64], chunks: bool) -> Result<(), String> {
    use sux::traits::bit_field_slice::*;
    let (width, len, chunk, seed) = (inp[2] as usize, inp[3] as usize, (inp[4] as usize).max(1), inp[5]);
    let mut rng = Rng(seed);
    // from_slice between word types: u16 source holding `width`-bit values into u8 / u16 / u64 destinations
    let w16 = width.min(16);
    let maxv: u16 = if w16 == 0 { 0 } else { u16::MAX >> (16 - w16) };
    let vals: Vec<u16> = (0..len).map(|_| match rng.below(4) { 0 => maxv, 1 => 0, _ => (rng.next() as u16) & maxv }).collect();
    let mut src = BitFieldVec::<u16>::new(w16, 0);
    src.extend(vals.iter().copied());
    if src.len() != len { return Err("extend: len".into()); }
    for i in 0..len { if src.get(i) != vals[i] { return Err(format!("extend: get({})", i)); } }
    // extend validates like push: a value that does not fit the width is rejected by a panic, never stored truncated
    if w16 < 16 && !chunks { let mut e = BitFieldVec::<u16>::new(w16, 0); let bad: u16 = maxv.wrapping_add(1) | (1 << w16);
        let r = std::panic::catch_unwind(std::panic::AssertUnwindSafe(|| e.extend([maxv, bad, 0])));
        if r.is_ok() { return Err(format!("extend accepted {} at width {} (len now {})", bad, w16, e.len())); } }
    let need = vals.iter().map(|&x| 16 - x.leading_zeros() as usize).max().unwrap_or(0);
    if !chunks { match inp[1] % 3 {
        0 => { let r = BitFieldVec::<u8>::from_slice(&src);
               if need <= 8 { let d = r.map_err(|e| format!("from_slice<u8> rejected values of {} bits: {}", need, e))?; for i in 0..len { if d.get(i) as u16 != vals[i] { return Err(format!("from_slice<u8>: get({})", i)); } } }
               else if r.is_ok() { return Err(format!("from_slice<u8> accepted values of {} bits", need)); } }
        1 => { let d = BitFieldVec::<u16>::from_slice(&src).map_err(|e| format!("from_slice<u16> rejected values of {} bits: {}", need, e))?; for i in 0..len { if d.get(i) != vals[i] { return Err(format!("from_slice<u16>: get({})", i)); } } }
        _ => { let d = BitFieldVec::<u64>::from_slice(&src).map_err(|e| format!("from_slice<u64>: {}", e))?; for i in 0..len { if d.get(i) as u16 != vals[i] { return Err(format!("from_slice<u64>: get({})", i)); } } }
    } return Ok(()); }
    // chunked writes: every element is written exactly once through the chunks, nothing else changes
    let spare = 1usize;
    let nw = ((len * w16 + 15) / 16).max(1) + spare;
    let words: Vec<u16> = (0..nw).map(|_| rng.next() as u16).collect();
    let mut v = unsafe { BitFieldVec::<u16, Vec<u16>>::from_raw_parts(words.clone(), w16, len) };
    let before: Vec<u16> = (0..len).map(|i| v.get(i)).collect();
    { // classify a panic of the call itself by its input class (the known width-0 finding must not hide anything else)
      let mut probe = unsafe { BitFieldVec::<u16, Vec<u16>>::from_raw_parts(words.clone(), w16, len) };
      let r = std::panic::catch_unwind(std::panic::AssertUnwindSafe(|| { let _ = probe.try_chunks_mut(chunk).map(|c| c.count()); }));
      if let Err(p) = r { let msg = p.downcast_ref::<&str>().map(|s| s.to_string()).or_else(|| p.downcast_ref::<String>().cloned()).unwrap_or_default();
          return Err(if w16 == 0 { format!("try_chunks_mut on bit width 0 panics: {}", msg) } else { format!("try_chunks_mut panics for width {} len {} chunk {}: {}", w16, len, chunk, msg) }); } }
    match v.try_chunks_mut(chunk) {
        Err(()) => { if len <= chunk || (chunk * w16) % 16 == 0 { return Err(format!("try_chunks_mut({}) refused a legal chunk size", chunk)); } }
        Ok(chunks) => {
            if !(len <= chunk || (chunk * w16) % 16 == 0) { return Err(format!("try_chunks_mut({}) accepted an unaligned chunk size", chunk)); }
            let mut base = 0usize;
            for mut c in chunks { let cl = c.len(); for j in 0..cl { if base + j < len { let x = before[base + j]; c.set(j, (!x) & maxv); } } base += cl; }
            if base < len { return Err(format!("chunks cover {} of {} elements", base, len)); }
            for i in 0..len { if v.get(i) != (!before[i]) & maxv { return Err(format!("chunked write: element {}", i)); } }
            let (nwords, _, _) = v.into_raw_parts();
            for p in len * w16..nw * 16 { if (nwords[p / 16] >> (p % 16)) & 1 != (words[p / 16] >> (p % 16)) & 1 { return Err(format!("chunked write: storage bit {} beyond len*width changed", p)); } }
        }
    }
    Ok(())
}

fn bits_of(t: u64) -> u64 { [8, 16, 32, 64, 128, 64][(t % 6) as usize] }

/// first element of every input selects the word type: 0 u8, 1 u16, 2 u32, 3 u64, 4 u128, 5 usize
fn run_one(case: &str, inp: &[u64]) -> Result<(), String> {
    let t = inp[0] % 6;
    let rest = &inp[1..];
    macro_rules! pick { ($a:ident, $b:ident, $c:ident, $d:ident, $e:ident, $f:ident) => { match t { 0 => $a(rest), 1 => $b(rest), 2 => $c(rest), 3 => $d(rest), 4 => $e(rest), _ => $f(rest) } } }
    if case == "bfv_misc" { return misc_case(inp, false); }
    if case == "bfv_chunks" { return misc_case(inp, true); }
    match case {
        "bfv_ops" => pick!(ops_u8, ops_u16, ops_u32, ops_u64, ops_u128, ops_usize),
        "bfv_copy" => pick!(copy_u8, copy_u16, copy_u32, copy_u64, copy_u128, copy_usize),
        "bfv_unaligned" => pick!(unal_u8, unal_u16, unal_u32, unal_u64, unal_u128, unal_usize),
        _ => pick!(apply_u8, apply_u16, apply_u32, apply_u64, apply_u128, apply_usize),
    }
}

pub fn run(case: &str, ctx: &mut Ctx, one: Option<&str>, rng: &mut Rng, budget: usize) {
    if let Some(s) = one {
        let inp = parse_list(s);
        ctx.trial(s, false, || run_one(case, &inp));
        return;
    }
    if case == "bfv_misc" || case == "bfv_chunks" {
        for dst in 0..3u64 { for w in [0u64, 1, 7, 8, 9, 15, 16] { for len in [0u64, 1, 2, 17, 64] { for chunk in [1u64, 2, 8, 16, 100] { let v = vec![1, dst, w, len, chunk, 5 + w + len]; let s = fmt_list(&v); ctx.trial(&s, false, || run_one(case, &v)); } } } }
        for _ in 0..budget.min(3000) { let v = vec![1, rng.below(3), rng.below(17), rng.below(300), 1 + rng.below(40), rng.next()]; let s = fmt_list(&v); ctx.trial(&s, false, || run_one(case, &v)); }
        return;
    }
    // small scope first
    match case {
        "bfv_ops" => {
            for t in 0..6u64 { for w in [0u64, 1, 3, bits_of(t) - 1, bits_of(t)] { for start in 0..3u64 {
                let v = vec![t, w, 7 + t + w, 12, start]; let s = fmt_list(&v); ctx.trial(&s, false, || run_one(case, &v));
            } } }
            for i in 0..budget { let t = rng.below(6); let v = vec![t, rng.below(bits_of(t) + 1), rng.next(), 5 + (i as u64 % 40), rng.below(3)];
                let s = fmt_list(&v); ctx.trial(&s, false, || run_one(case, &v)); }
        }
        "bfv_copy" => {
            for t in [3u64, 0] { for w in [0u64, 1, 5, 7, bits_of(t)] { for from in [0u64, 1, 5] { for to in [0u64, 3, 9] { for len in [0u64, 1, 2, 30, 200] {
                let v = vec![t, w, 40, 37, from, to, len, 99]; let s = fmt_list(&v); ctx.trial(&s, false, || run_one(case, &v));
            } } } } }
            for _ in 0..budget { let t = rng.below(6); let sl = rng.below(300); let dl = rng.below(300);
                let v = vec![t, rng.below(bits_of(t) + 1), sl, dl, rng.below(sl + 1), rng.below(dl + 1), rng.below(320), rng.next()];
                let s = fmt_list(&v); ctx.trial(&s, false, || run_one(case, &v)); }
        }
        "bfv_unaligned" => {
            for t in 0..6u64 { for w in 0..=bits_of(t) { for len in [0u64, 1, 2, 3, 9, 40] {
                let v = vec![t, w, len, 5]; let s = fmt_list(&v); ctx.trial(&s, false, || run_one(case, &v));
            } } }
        }
        _ => {
            for t in 0..6u64 { for w in [0u64, 1, 4, 7, bits_of(t)] { for len in [0u64, 1, 5, 16, 33] { for spare in 0..3u64 {
                let v = vec![t, w, len, spare, 11]; let s = fmt_list(&v); ctx.trial(&s, false, || run_one(case, &v));
            } } } }
            for _ in 0..budget { let t = rng.below(6); let v = vec![t, rng.below(bits_of(t) + 1), rng.below(80), rng.below(3), rng.next()];
                let s = fmt_list(&v); ctx.trial(&s, false, || run_one(case, &v)); }
        }
    }
}
