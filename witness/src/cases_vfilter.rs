use crate::{fmt_list, parse_list, Ctx, Rng};
use dsi_progress_logger::no_logging;
use sux::bits::BitFieldVec;
use sux::dict::VFilter;
use sux::func::{shard_edge::*, VBuilder, VFunc};
use sux::utils::FromIntoIterator;

/// executable twin of the C08 contracts: every key is a member through both query paths; with b hash bits the number of
/// false positives among `probes` non-keys stays below probes / 2^b * 8 + 8 (for b = BITS of a 64-bit word: none at all)
/// input: [n, filter_bits, word (0 = u64 bit-field, 1 = u16 bit-field, 2 = boxed u8), hint (0 = exact key count, 1 = none, 2 = 4n/3, 3 = n/2, 4 = 3n)]:
/// expected_num_keys is only a hint, the filter must be right whatever it says; optional fifth entry: the keys are off .. off + n (different key sets
/// take different paths through the builder's retry loop: duplicate local signatures, a largest shard too big, unsolvable systems)
fn with_hint<W: sux::traits::Word + epserde::traits::ZeroCopy, D: sux::traits::bit_field_slice::BitFieldSlice<W> + Send + Sync>(b: VBuilder<W, D>, hint: Option<usize>) -> VBuilder<W, D> { match hint { Some(h) => b.expected_num_keys(h), None => b } }

fn case(inp: &[u64]) -> Result<(), String> {
    let (n, bits, kind) = (inp[0] as usize, inp[1] as usize, inp[2] % 3);
    let hint: Option<usize> = match inp.get(3).copied().unwrap_or(0) % 5 { 0 => Some(n), 1 => None, 2 => Some(n + n / 3), 3 => Some(n / 2), _ => Some(3 * n) };
    let probes = 4000usize;
    let off = inp.get(4).copied().unwrap_or(0) as usize;
    macro_rules! check { ($f:expr, $b:expr, $unal:expr) => {{
        let f = $f;
        if f.len() != n { return Err(format!("len() = {} for {} keys", f.len(), n)); }
        for k in off..off + n { if !f.contains(k) { return Err(format!("key {} is a false negative", k)); } if !f[k] { return Err(format!("filter[{}] is false for a key (contains is true)", k)); } }
        let mut fp = 0usize;
        for k in off + n..off + n + probes { if f.contains(k) { fp += 1; } if f[k] != f.contains(k) { return Err(format!("filter[{}] differs from contains", k)); } }
        let allowed = if $b >= 32 { 0 } else { (probes >> $b) * 8 + 8 };
        if n > 0 && fp > allowed { return Err(format!("{} false positives among {} non-keys with {} hash bits (allowed {})", fp, probes, $b, allowed)); }
        if f.hash_bits() as usize != $b { return Err(format!("hash_bits() = {} for {} bits", f.hash_bits(), $b)); }
        Ok(())
    }} }
    match kind {
        0 => { let b = bits.clamp(1, 64);
               let f: VFilter<u64, VFunc<usize, u64, BitFieldVec<u64>>> = with_hint(VBuilder::<u64, BitFieldVec<u64>>::default().offline(false), hint)
                   .try_build_filter(FromIntoIterator::from(off..off + n), b, no_logging![]).map_err(|e| e.to_string())?;
               if b <= 58 || b == 60 || b == 64 { for k in off..off + n { if !f.contains_unaligned(k) { return Err(format!("key {} is a false negative (unaligned)", k)); } } }
               check!(f, b, true) }
        1 => { let b = bits.clamp(1, 16);
               let f: VFilter<u16, VFunc<usize, u16, BitFieldVec<u16>>> = with_hint(VBuilder::<u16, BitFieldVec<u16>>::default().offline(false), hint)
                   .try_build_filter(FromIntoIterator::from(off..off + n), b, no_logging![]).map_err(|e| e.to_string())?;
               check!(f, b, false) }
        _ => { let f: VFilter<u8, VFunc<usize, u8, Box<[u8]>>> = with_hint(VBuilder::<u8, Box<[u8]>>::default().offline(false), hint)
                   .try_build_filter(FromIntoIterator::from(off..off + n), no_logging![]).map_err(|e| e.to_string())?;
               check!(f, 8usize, false) }
    }
}

pub fn run(case_name: &str, ctx: &mut Ctx, one: Option<&str>, rng: &mut Rng, budget: usize) {
    let _ = case_name;
    if let Some(s) = one { let inp = parse_list(s); ctx.trial(s, false, || case(&inp)); return; }
    for kind in 0..3u64 { for n in [0u64, 1, 10, 1000] { for bits in [1u64, 7, 8, 16, 31, 32, 63, 64] {
        if kind == 2 && bits != 8 { continue; }
        if kind == 1 && bits > 16 { continue; }
        let v = vec![n, bits, kind]; let s = fmt_list(&v); ctx.trial(&s, false, || case(&v));
    } } }
    // sizes at which the default ShardEdge splits the keys into several shards (100_000 ..= 800_000 keys)
    if budget >= 1000 { for (n, bits, kind, hint) in [(100_000u64, 9u64, 0u64, 0u64), (200_000, 64, 0, 0), (300_000, 16, 1, 0), (150_000, 8, 2, 0), (810_000, 5, 0, 0), (90_000, 10, 0, 2), (120_000, 10, 0, 3), (150_000, 12, 0, 4), (120_000, 7, 1, 1), (250_000, 8, 2, 3)] { let v = vec![n, bits, kind, hint]; let s = fmt_list(&v); ctx.trial(&s, false, || case(&v)); } }
    // key sets whose first seed makes the largest shard too big (the rare retry that only rewinds): 4_000_000 .. 4_200_000 is one; a few more offsets
    if budget >= 1000 { for (n, bits, kind, hint, off) in [(200_000u64, 8u64, 0u64, 0u64, 4_000_000u64), (200_000, 8, 2, 1, 4_000_000), (400_000, 12, 0, 0, 1_000_000), (810_000, 6, 0, 0, 7_000_000), (810_000, 8, 2, 1, 20_000_000), (810_000, 9, 0, 0, 50_000_000)] {
        let v = vec![n, bits, kind, hint, off]; let s = fmt_list(&v); ctx.trial(&s, false, || case(&v)); } }
    for _ in 0..budget.min(20) { let v = vec![rng.below(3000), 1 + rng.below(64), rng.below(3), rng.below(5), rng.next() >> 20]; let s = fmt_list(&v); ctx.trial(&s, false, || case(&v)); }
    for _ in 0..budget.min(20) { let v = vec![rng.below(3000), 1 + rng.below(64), rng.below(3), rng.below(5)]; let s = fmt_list(&v); ctx.trial(&s, false, || case(&v)); }
}
