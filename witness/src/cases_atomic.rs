use crate::{fmt_list, parse_list, Ctx, Rng};
use std::sync::atomic::Ordering;
use sux::prelude::*;

/// single-threaded atomic set/get against Vec<usize>; input [width, len, seed, nops]
fn case(inp: &[u64]) -> Result<(), String> {
    let width = inp[0] as usize; let len = inp[1] as usize;
    if width > 64 { return Ok(()); }
    let mut rng = Rng(inp[2]);
    let maxv: usize = if width == 0 { 0 } else { usize::MAX >> (64 - width) };
    let v = AtomicBitFieldVec::<usize>::new(width, len);
    let mut m = vec![0usize; len];
    for step in 0..inp[3] {
        if len == 0 { break; }
        let i = rng.below(len as u64) as usize;
        let x = match rng.below(3) { 0 => maxv, 1 => 0, _ => (rng.next() as usize) & maxv };
        v.set_atomic(i, x, Ordering::Relaxed); m[i] = x;
        for k in 0..len { let g = v.get_atomic(k, Ordering::Relaxed); if g != m[k] { return Err(format!("step {}: get_atomic({}) = {} expected {}", step, k, g, m[k])); } }
    }
    // AtomicBitVec
    let n = len.max(1) + 70;
    let b = AtomicBitVec::new(n);
    let mut mb = vec![false; n];
    for step in 0..inp[3] {
        let i = rng.below(n as u64) as usize; let x = rng.below(2) == 1;
        if rng.below(2) == 0 { b.set(i, x, Ordering::Relaxed); } else { let o = b.swap(i, x, Ordering::Relaxed); if o != mb[i] { return Err(format!("step {}: swap returned {} expected {}", step, o, mb[i])); } }
        mb[i] = x;
        for k in 0..n { if b.get(k, Ordering::Relaxed) != mb[k] { return Err(format!("step {}: AtomicBitVec get({}) wrong", step, k)); } }
        if b.count_ones() != mb.iter().filter(|x| **x).count() { return Err(format!("step {}: AtomicBitVec count_ones wrong", step)); }
    }
    Ok(())
}

pub fn run(_c: &str, ctx: &mut Ctx, one: Option<&str>, rng: &mut Rng, budget: usize) {
    if let Some(s) = one { let inp = parse_list(s); ctx.trial(s, false, || case(&inp)); return; }
    for w in [0u64, 1, 3, 7, 32, 63, 64] { for len in [0u64, 1, 5, 20] { let v = vec![w, len, 9 + w, 12]; let s = fmt_list(&v); ctx.trial(&s, false, || case(&v)); } }
    for _ in 0..budget.min(300) { let v = vec![rng.below(65), rng.below(40), rng.next(), 10]; let s = fmt_list(&v); ctx.trial(&s, false, || case(&v)); }
}
