use crate::{fmt_list, parse_list, Ctx, Rng};
use lender::*;
use std::io::{BufReader, Cursor, Write};
use sux::utils::*;

fn text(nlines: usize, crlf: bool, final_nl: bool, seed: u64) -> (Vec<u8>, Vec<String>) { text_long(nlines, crlf, final_nl, seed, false) }
fn text_long(nlines: usize, crlf: bool, final_nl: bool, seed: u64, long: bool) -> (Vec<u8>, Vec<String>) {
    let mut rng = Rng(seed);
    let mut lines = Vec::new();
    let mut bytes = Vec::new();
    for i in 0..nlines {
        let len = if long && rng.below(5) == 0 { rng.below(30_000) as usize } else { rng.below(12) as usize };
        let s: String = (0..len).map(|_| (b'a' + rng.below(26) as u8) as char).collect();
        bytes.extend_from_slice(s.as_bytes());
        if i + 1 < nlines || final_nl { if crlf { bytes.push(b'\r'); } bytes.push(b'\n'); }
        lines.push(s);
    }
    // a trailing empty line without terminator does not exist as a line
    if !final_nl && nlines > 0 && lines[nlines - 1].is_empty() { lines.pop(); }
    (bytes, lines)
}

fn drain<L>(l: &mut L, k: usize) -> Result<Vec<String>, String>
where L: for<'a> Lending<'a, Lend = std::io::Result<&'a str>> + Lender {
    let mut out = Vec::new();
    while out.len() < k {
        match l.next() { None => break, Some(Ok(s)) => out.push(s.to_string()), Some(Err(e)) => return Err(format!("I/O error: {}", e)) }
    }
    Ok(out)
}

/// input: [kind (0 plain, 1 gzip, 2 zstd), nlines, consume_first, rewinds, flags (1 crlf, 2 final newline, 4 some long lines, bits 3.. capacity of the
/// BufReader under the plain lender, 0 = default: a small buffer puts every terminator on a refill boundary for some line), seed]
fn case(inp: &[u64]) -> Result<(), String> {
    let (kind, nlines, consume, rewinds, flags, seed) = (inp[0] % 3, inp[1] as usize, inp[2] as usize, inp[3] as usize, inp[4], inp[5]);
    let (bytes, lines) = text_long(nlines, flags & 1 != 0, flags & 2 != 0, seed, flags & 4 != 0);
    let cap = (flags >> 3) as usize;
    macro_rules! go { ($l:expr) => {{
        let mut l = $l;
        let first = drain(&mut l, consume)?;
        if first[..] != lines[..first.len().min(lines.len())] || first.len() != consume.min(lines.len()) { return Err(format!("first pass yielded {:?}", first)); }
        for r in 0..rewinds {
            l = l.rewind().map_err(|e| format!("rewind error: {}", e))?;
            let all = drain(&mut l, usize::MAX)?;
            if all != lines { return Err(format!("pass after rewind {} yielded {} lines {:?}.., expected {} lines", r + 1, all.len(), &all[..all.len().min(3)], lines.len())); }
        }
        Ok(())
    }} }
    match kind {
        0 if cap > 0 => go!(LineLender::new(BufReader::with_capacity(cap, Cursor::new(bytes)))),
        0 => go!(LineLender::new(BufReader::new(Cursor::new(bytes)))),
        1 => { let mut e = flate2::write::GzEncoder::new(Vec::new(), flate2::Compression::default()); e.write_all(&bytes).unwrap(); let z = e.finish().unwrap();
               go!(GzipLineLender::new(Cursor::new(z)).map_err(|e| e.to_string())?) }
        _ => { let z = zstd::encode_all(&bytes[..], 3).map_err(|e| e.to_string())?;
               go!(ZstdLineLender::new(Cursor::new(z)).map_err(|e| e.to_string())?) }
    }
}

fn drain_res<L>(l: &mut L, k: usize) -> Vec<String>
where L: for<'a> Lending<'a, Lend = std::io::Result<&'a str>> + Lender {
    let mut out = Vec::new();
    while out.len() < k {
        match l.next() { None => break, Some(Ok(s)) => out.push(format!("ok:{}", s)), Some(Err(e)) => { out.push(format!("err:{:?}", e.kind())); break; } }
    }
    out
}

/// self-consistency of passes, inputs that make a pass END IN AN ERROR included (the items of a pass are io::Results): whatever a fresh
/// lender yields in a complete pass (up to and including the first error), a lender rewound after k items yields again, twice.
/// input: [kind (0 plain, 1 gzip, 2 zstd, 3 zstd stream declaring a 2^28 window, beyond the decoder's default limit), nlines, consume_first,
///         damage (0 none, 1 an invalid UTF-8 byte in the text, 2 compressed stream truncated), seed]
fn case_selfcons(inp: &[u64]) -> Result<(), String> {
    let (kind, nlines, consume, damage, seed) = (inp[0] % 4, inp[1] as usize, inp[2] as usize, inp[3] % 3, inp[4]);
    let (mut bytes, _lines) = text(nlines, seed & 1 != 0, seed & 2 != 0, seed);
    let mut rng = Rng(seed ^ 0xABCD);
    if damage == 1 && !bytes.is_empty() { let p = rng.below(bytes.len() as u64) as usize; bytes.insert(p, 0xFF); }
    let mut stream: Vec<u8> = match kind {
        0 => bytes.clone(),
        1 => { let mut e = flate2::write::GzEncoder::new(Vec::new(), flate2::Compression::default()); e.write_all(&bytes).unwrap(); e.finish().unwrap() }
        2 => zstd::encode_all(&bytes[..], 3).map_err(|e| e.to_string())?,
        _ => { let mut e = zstd::stream::write::Encoder::new(Vec::new(), 3).map_err(|e| e.to_string())?; e.window_log(28).map_err(|e| e.to_string())?;
               e.write_all(&bytes).unwrap(); e.finish().map_err(|e| e.to_string())? }
    };
    if damage == 2 && kind != 0 && stream.len() > 4 { let keep = stream.len() - 1 - rng.below((stream.len() / 2) as u64) as usize; stream.truncate(keep); }
    macro_rules! go { ($mk:expr) => {{
        let mut fresh = $mk;
        let reference = drain_res(&mut fresh, 10_000_000);
        let mut l = $mk;
        let first = drain_res(&mut l, consume);
        if first[..] != reference[..first.len().min(reference.len())] { return Err(format!("two fresh lenders disagree: {:?}", &first[..first.len().min(3)])); }
        for r in 0..2 {
            l = match l.rewind() { Ok(l) => l, Err(e) => return Err(format!("rewind {} error: {}", r + 1, e)) };
            let all = drain_res(&mut l, 10_000_000);
            if all != reference { return Err(format!("pass after rewind {} (after {} items) yielded {} items ending in {:?}; a fresh pass yields {} items ending in {:?}", r + 1, first.len(), all.len(), all.last(), reference.len(), reference.last())); }
        }
        Ok(())
    }} }
    match kind {
        0 => go!(LineLender::new(BufReader::with_capacity(1 + (seed >> 8) as usize % 64, Cursor::new(stream.clone())))),
        1 => go!(GzipLineLender::new(Cursor::new(stream.clone())).map_err(|e| e.to_string())?),
        _ => go!(ZstdLineLender::new(Cursor::new(stream.clone())).map_err(|e| e.to_string())?),
    }
}

/// Take of a rewindable lender; input: [nlines, take_n, consume_first, rewinds, seed]
fn case_take(inp: &[u64]) -> Result<(), String> {
    let (nlines, take_n, consume, rewinds, seed) = (inp[0] as usize, inp[1] as usize, inp[2] as usize, inp[3] as usize, inp[4]);
    let (bytes, lines) = text(nlines, false, true, seed);
    let expect: Vec<String> = lines.iter().take(take_n).cloned().collect();
    let mut l = LineLender::new(BufReader::new(Cursor::new(bytes))).take(take_n);
    let first = drain(&mut l, consume)?;
    if first[..] != expect[..first.len().min(expect.len())] || first.len() != consume.min(expect.len()) { return Err(format!("first pass yielded {:?}", first)); }
    for r in 0..rewinds {
        l = l.rewind().map_err(|e| format!("rewind error: {}", e))?;
        let all = drain(&mut l, usize::MAX)?;
        if all != expect { return Err(format!("take({}) after consuming {} items: pass after rewind {} yielded {} items, the first pass has {}", take_n, consume.min(expect.len()), r + 1, all.len(), expect.len())); }
    }
    Ok(())
}

pub fn run(case_name: &str, ctx: &mut Ctx, one: Option<&str>, rng: &mut Rng, budget: usize) {
    if case_name == "lenders_take" {
        if let Some(s) = one { let inp = parse_list(s); ctx.trial(s, false, || case_take(&inp)); return; }
        for nlines in [0u64, 1, 5, 20] { for take_n in [0u64, 1, 3, 30] { for consume in [0u64, 1, 2, 100] {
            let v = vec![nlines, take_n, consume, 2, 11 + nlines]; let s = fmt_list(&v); ctx.trial(&s, false, || case_take(&v));
        } } }
        for _ in 0..budget.min(200) { let v = vec![rng.below(50), rng.below(60), rng.below(70), 1 + rng.below(3), rng.next()];
            let s = fmt_list(&v); ctx.trial(&s, false, || case_take(&v)); }
        return;
    }
    if case_name == "lenders_selfcons" {
        if let Some(s) = one { let inp = parse_list(s); ctx.trial(s, false, || case_selfcons(&inp)); return; }
        for kind in 0..4u64 { for nlines in [0u64, 1, 3, 30, 3000] { for consume in [0u64, 1, 2, 1000] { for damage in 0..3u64 { for seed in [4u64, 5, 6, 7] {
            let v = vec![kind, nlines, consume, damage, seed + (nlines << 8)]; let s = fmt_list(&v); ctx.trial(&s, false, || case_selfcons(&v));
        } } } } }
        for _ in 0..budget.min(400) { let v = vec![rng.below(4), rng.below(300), rng.below(320), rng.below(3), rng.next()]; let s = fmt_list(&v); ctx.trial(&s, false, || case_selfcons(&v)); }
        return;
    }
    if let Some(s) = one { let inp = parse_list(s); ctx.trial(s, false, || case(&inp)); return; }
    for kind in 0..3u64 { for nlines in [0u64, 1, 2, 5, 40] { for consume in [0u64, 1, 3, 100] { for flags in 0..4u64 {
        let v = vec![kind, nlines, consume, 2, flags, 7 + nlines]; let s = fmt_list(&v); ctx.trial(&s, false, || case(&v));
    } } } }
    // long inputs (several compressed blocks / buffer refills), rewound in the middle of a pass
    for kind in 0..3u64 { for consume in [7u64, 150_000] { let v = vec![kind, 260_000, consume, 2, 2, 99 + kind]; let s = fmt_list(&v); ctx.trial(&s, false, || case(&v)); } }
    for kind in 0..3u64 { for flags in [3u64, 1, 7] { let v = vec![kind, if flags & 4 != 0 { 3000 } else { 260_000 }, 1000, 1, flags, 5 + kind + flags]; let s = fmt_list(&v); ctx.trial(&s, false, || case(&v)); } }
    // small buffers under the plain lender: every alignment of CR / LF with a refill boundary
    for cap in 1..=9u64 { for flags in 0..4u64 { for nlines in [1u64, 2, 7, 40] { let v = vec![0, nlines, 3, 2, flags | (cap << 3), 31 + cap + nlines]; let s = fmt_list(&v); ctx.trial(&s, false, || case(&v)); } } }
    for _ in 0..budget.min(300) { let v = vec![0, rng.below(60), rng.below(70), 1 + rng.below(2), rng.below(8) | ((1 + rng.below(40)) << 3), rng.next()];
        let s = fmt_list(&v); ctx.trial(&s, false, || case(&v)); }
    for _ in 0..budget.min(300) { let v = vec![rng.below(3), rng.below(200), rng.below(220), 1 + rng.below(3), rng.below(4), rng.next()];
        let s = fmt_list(&v); ctx.trial(&s, false, || case(&v)); }
}
