use crate::{fmt_list, parse_list, Ctx, Rng};
use lender::*;
use std::io::{BufReader, Cursor, Write};
use sux::utils::*;

fn text(nlines: usize, crlf: bool, final_nl: bool, seed: u64) -> (Vec<u8>, Vec<String>) {
    let mut rng = Rng(seed);
    let mut lines = Vec::new();
    let mut bytes = Vec::new();
    for i in 0..nlines {
        let len = rng.below(12) as usize;
        let s: String = (0..len).map(|_| (b'a' + rng.below(26) as u8) as char).collect();
        bytes.extend_from_slice(s.as_bytes());
        if i + 1 < nlines || final_nl { if crlf { bytes.push(b'\r'); } bytes.push(b'\n'); }
        lines.push(s);
    }
    // a trailing empty line without terminator does not exist as a line
    if !final_nl && nlines > 0 && lines[nlines - 1].is_empty() { lines.pop(); }
    (bytes, lines)
}

fn drain<L>(l: &mut L, k: usize) -> Result<Vec<String>, String>
where L: for<'a> Lending<'a, Lend = std::io::Result<&'a str>> + Lender {
    let mut out = Vec::new();
    while out.len() < k {
        match l.next() { None => break, Some(Ok(s)) => out.push(s.to_string()), Some(Err(e)) => return Err(format!("I/O error: {}", e)) }
    }
    Ok(out)
}

/// input: [kind (0 plain, 1 gzip, 2 zstd), nlines, consume_first, rewinds, flags (1 crlf, 2 final newline), seed]
fn case(inp: &[u64]) -> Result<(), String> {
    let (kind, nlines, consume, rewinds, flags, seed) = (inp[0] % 3, inp[1] as usize, inp[2] as usize, inp[3] as usize, inp[4], inp[5]);
    let (bytes, lines) = text(nlines, flags & 1 != 0, flags & 2 != 0, seed);
    macro_rules! go { ($l:expr) => {{
        let mut l = $l;
        let first = drain(&mut l, consume)?;
        if first[..] != lines[..first.len().min(lines.len())] || first.len() != consume.min(lines.len()) { return Err(format!("first pass yielded {:?}", first)); }
        for r in 0..rewinds {
            l = l.rewind().map_err(|e| format!("rewind error: {}", e))?;
            let all = drain(&mut l, usize::MAX)?;
            if all != lines { return Err(format!("pass after rewind {} yielded {} lines {:?}.., expected {} lines", r + 1, all.len(), &all[..all.len().min(3)], lines.len())); }
        }
        Ok(())
    }} }
    match kind {
        0 => go!(LineLender::new(BufReader::new(Cursor::new(bytes)))),
        1 => { let mut e = flate2::write::GzEncoder::new(Vec::new(), flate2::Compression::default()); e.write_all(&bytes).unwrap(); let z = e.finish().unwrap();
               go!(GzipLineLender::new(Cursor::new(z)).map_err(|e| e.to_string())?) }
        _ => { let z = zstd::encode_all(&bytes[..], 3).map_err(|e| e.to_string())?;
               go!(ZstdLineLender::new(Cursor::new(z)).map_err(|e| e.to_string())?) }
    }
}

/// Take of a rewindable lender; input: [nlines, take_n, consume_first, rewinds, seed]
fn case_take(inp: &[u64]) -> Result<(), String> {
    let (nlines, take_n, consume, rewinds, seed) = (inp[0] as usize, inp[1] as usize, inp[2] as usize, inp[3] as usize, inp[4]);
    let (bytes, lines) = text(nlines, false, true, seed);
    let expect: Vec<String> = lines.iter().take(take_n).cloned().collect();
    let mut l = LineLender::new(BufReader::new(Cursor::new(bytes))).take(take_n);
    let first = drain(&mut l, consume)?;
    if first[..] != expect[..first.len().min(expect.len())] || first.len() != consume.min(expect.len()) { return Err(format!("first pass yielded {:?}", first)); }
    for r in 0..rewinds {
        l = l.rewind().map_err(|e| format!("rewind error: {}", e))?;
        let all = drain(&mut l, usize::MAX)?;
        if all != expect { return Err(format!("take({}) after consuming {} items: pass after rewind {} yielded {} items, the first pass has {}", take_n, consume.min(expect.len()), r + 1, all.len(), expect.len())); }
    }
    Ok(())
}

pub fn run(case_name: &str, ctx: &mut Ctx, one: Option<&str>, rng: &mut Rng, budget: usize) {
    if case_name == "lenders_take" {
        if let Some(s) = one { let inp = parse_list(s); ctx.trial(s, false, || case_take(&inp)); return; }
        for nlines in [0u64, 1, 5, 20] { for take_n in [0u64, 1, 3, 30] { for consume in [0u64, 1, 2, 100] {
            let v = vec![nlines, take_n, consume, 2, 11 + nlines]; let s = fmt_list(&v); ctx.trial(&s, false, || case_take(&v));
        } } }
        for _ in 0..budget.min(200) { let v = vec![rng.below(50), rng.below(60), rng.below(70), 1 + rng.below(3), rng.next()];
            let s = fmt_list(&v); ctx.trial(&s, false, || case_take(&v)); }
        return;
    }
    if let Some(s) = one { let inp = parse_list(s); ctx.trial(s, false, || case(&inp)); return; }
    for kind in 0..3u64 { for nlines in [0u64, 1, 2, 5, 40] { for consume in [0u64, 1, 3, 100] { for flags in 0..4u64 {
        let v = vec![kind, nlines, consume, 2, flags, 7 + nlines]; let s = fmt_list(&v); ctx.trial(&s, false, || case(&v));
    } } } }
    // long inputs (several compressed blocks / buffer refills), rewound in the middle of a pass
    for kind in 0..3u64 { for consume in [7u64, 150_000] { let v = vec![kind, 260_000, consume, 2, 2, 99 + kind]; let s = fmt_list(&v); ctx.trial(&s, false, || case(&v)); } }
    for _ in 0..budget.min(300) { let v = vec![rng.below(3), rng.below(200), rng.below(220), 1 + rng.below(3), rng.below(4), rng.next()];
        let s = fmt_list(&v); ctx.trial(&s, false, || case(&v)); }
}
