//! Witness search / replay binary (DESIGN.md 3.8).  It never decides a property: it is run only
//! after a proof obligation failed, to look for a concrete input on which the *real* crate
//! violates the executable transcription of the same contract.
//!
//! Protocol on stdout: `TRY <case> <json input>` before every trial (flushed), then either nothing
//! (trial passed) or `FAIL <case> <json input> :: <reason>`.  If the process dies (debug UB
//! check abort, segfault) the driver takes the last TRY line as the failing input.
use std::io::Write;
use std::panic::{catch_unwind, AssertUnwindSafe};

mod cases_bitvec;
mod cases_bfv;
mod cases_rank;
mod cases_lenders;
mod cases_vfilter;
mod cases_select;
mod cases_shard;
mod cases_vfunc;
mod cases_ef;
mod cases_rcl;
mod cases_atomic;

pub struct Rng(pub u64);
impl Rng {
    pub fn next(&mut self) -> u64 {
        // splitmix64
        self.0 = self.0.wrapping_add(0x9E3779B97F4A7C15);
        let mut z = self.0;
        z = (z ^ (z >> 30)).wrapping_mul(0xBF58476D1CE4E5B9);
        z = (z ^ (z >> 27)).wrapping_mul(0x94D049BB133111EB);
        z ^ (z >> 31)
    }
    pub fn below(&mut self, n: u64) -> u64 { if n == 0 { 0 } else { self.next() % n } }
}

pub struct Ctx { pub case: String, pub fails: usize, pub trials: usize, pub max_fails: usize, pub seen: Vec<String> }
impl Ctx {
    /// run one trial; `f` returns Err(reason) on a contract violation; a panic is a violation only
    /// when `panic_ok` is false
    pub fn trial<F: FnOnce() -> Result<(), String>>(&mut self, input: &str, panic_ok: bool, f: F) {
        self.trials += 1;
        println!("TRY {} {}", self.case, input);
        std::io::stdout().flush().ok();
        let r = catch_unwind(AssertUnwindSafe(f));
        match r {
            Ok(Ok(())) => {}
            Ok(Err(reason)) => { self.fail(input, &reason); }
            Err(p) => {
                let msg = if let Some(s) = p.downcast_ref::<String>() { s.clone() } else if let Some(s) = p.downcast_ref::<&str>() { s.to_string() } else { "panic".to_string() };
                if !panic_ok { self.fail(input, &format!("panic: {}", msg)); }
            }
        }
    }
    fn fail(&mut self, input: &str, reason: &str) {
        // one report per distinct reason (digits normalised): a second input failing the same way is not news
        let key: String = reason.chars().map(|c| if c.is_ascii_digit() { '#' } else { c }).take(80).collect();
        if self.seen.contains(&key) { return; }
        self.seen.push(key);
        self.fails += 1;
        println!("FAIL {} {} :: {}", self.case, input, reason.replace('\n', " "));
        std::io::stdout().flush().ok();
        if self.fails >= self.max_fails { println!("DONE trials={} fails={}", self.trials, self.fails); std::process::exit(3); }
    }
}

fn main() {
    std::panic::set_hook(Box::new(|_| {}));
    let args: Vec<String> = std::env::args().collect();
    if args.len() < 3 { eprintln!("usage: sux-witness search <case> <seed> <budget> | one <case> <json>"); std::process::exit(2); }
    let mode = args[1].as_str();
    let case = args[2].clone();
    let mut ctx = Ctx { case: case.clone(), fails: 0, trials: 0, max_fails: std::env::var("WITNESS_MAX_FAILS").ok().and_then(|s| s.parse().ok()).unwrap_or(1), seen: Vec::new() };
    match mode {
        "search" => {
            let seed: u64 = args.get(3).and_then(|s| s.parse().ok()).unwrap_or(0);
            let budget: usize = args.get(4).and_then(|s| s.parse().ok()).unwrap_or(2000);
            let mut rng = Rng(seed ^ 0xA5A5_5A5A_1234_5678);
            dispatch(&case, &mut ctx, None, &mut rng, budget);
        }
        "one" => {
            let mut rng = Rng(0);
            dispatch(&case, &mut ctx, Some(args[3].as_str()), &mut rng, 1);
        }
        _ => { eprintln!("bad mode"); std::process::exit(2); }
    }
    println!("DONE trials={} fails={}", ctx.trials, ctx.fails);
    std::process::exit(if ctx.fails > 0 { 3 } else { 0 });
}

fn dispatch(case: &str, ctx: &mut Ctx, one: Option<&str>, rng: &mut Rng, budget: usize) {
    match case {
        "bitvec_iter_ones" | "bitvec_iter_zeros" | "bitvec_ops" | "bitvec_stale" => cases_bitvec::run(case, ctx, one, rng, budget),
        "ef_seq" | "ef_dict" | "ef_builder" | "ef_big" => cases_ef::run(case, ctx, one, rng, budget),
        "atomic" => cases_atomic::run(case, ctx, one, rng, budget),
        "rcl" => cases_rcl::run(case, ctx, one, rng, budget),
        "vfunc" => cases_vfunc::run(case, ctx, one, rng, budget),
        "shard_edge" => cases_shard::run(case, ctx, one, rng, budget),
        "select_all" | "select_big" | "select_inv" => cases_select::run(case, ctx, one, rng, budget),
        "vfilter" => cases_vfilter::run(case, ctx, one, rng, budget),
        "lenders" | "lenders_take" | "lenders_selfcons" => cases_lenders::run(case, ctx, one, rng, budget),
        "rank9" | "rank_all" => cases_rank::run(case, ctx, one, rng, budget),
        "bfv_ops" | "bfv_copy" | "bfv_unaligned" | "bfv_apply" | "bfv_misc" | "bfv_chunks" => cases_bfv::run(case, ctx, one, rng, budget),
        _ => { eprintln!("unknown case {}", case); std::process::exit(2); }
    }
}

/// tiny helpers to write / read the flat JSON-ish inputs we use: a list of integers
pub fn fmt_list(v: &[u64]) -> String { format!("[{}]", v.iter().map(|x| x.to_string()).collect::<Vec<_>>().join(",")) }
pub fn parse_list(s: &str) -> Vec<u64> {
    s.trim().trim_start_matches('[').trim_end_matches(']').split(',').filter(|x| !x.trim().is_empty()).map(|x| x.trim().parse().unwrap()).collect()
}
