use crate::{fmt_list, parse_list, Ctx, Rng};
use sux::func::shard_edge::*;
use sux::utils::Sig;

/// executable statement of C16 over the four default ShardEdge implementations, with the REAL f64 set-up:
/// after set_up_shards(n) / set_up_graphs(n, max_shard) every signature gets three pairwise distinct vertices below
/// num_vertices * num_shards, inside the slice of its shard, equal to local_edge + shard offset; shard < num_shards is the
/// value of the top shard_high_bits bits (what the signature store uses), sort_key < num_sort_keys.
/// input: [impl (0 Shards, 1 NoShards<[u64;2]>, 2 NoShards<[u64;1]>, 3 FullSigs), n, seed]
fn check<S: Sig + Copy + std::fmt::Debug, E: ShardEdge<S, 3> + Default>(tight: bool, n: usize, seed: u64, mk: impl Fn(&mut Rng) -> S, hi: impl Fn(S) -> u64) -> Result<(), String> {
    let mut e = E::default();
    e.set_up_shards(n, 0.001);
    let ns = e.num_shards();
    let max_shard = if ns == 1 { n } else { ((n as f64 / ns as f64) * 1.005) as usize + 1 };
    let _ = e.set_up_graphs(n, max_shard);
    let nv = e.num_vertices();
    let ns = e.num_shards();
    if ns != 1usize << e.shard_high_bits() { return Err("num_shards != 2^shard_high_bits".into()); }
    if nv == 0 { return Err("num_vertices == 0".into()); }
    // space (C11): 1.23 n vertices, 1.135 n from 100000 keys upward, up to the rounding to whole segments and the 1% shard imbalance (threshold 1.15 n / 64 vertices)
    let tot = (nv as f64) * (ns as f64);
    if tight && n >= 100_000 && tot > 1.15 * n as f64 { return Err(format!("{} vertices for {} keys: {:.4} n > 1.135 n", tot, n, tot / n as f64)); }
    if n >= 1000 && tot > 1.23 * n as f64 + 64.0 { return Err(format!("{} vertices for {} keys: {:.4} n > 1.23 n", tot, n, tot / n as f64)); }
    let nk = e.num_sort_keys();
    let mut rng = Rng(seed | 1);
    for t in 0..400 {
        let sig = match t { 0 => mk(&mut Rng(0)), _ => mk(&mut rng) };
        let sh = e.shard(sig);
        if sh >= ns { return Err(format!("shard {} >= {} for {:?}", sh, ns, sig)); }
        let h = e.shard_high_bits();
        let want = if h == 0 { 0 } else { (hi(sig) >> (64 - h)) as usize };
        if sh != want { return Err(format!("shard({:?}) = {} but the top {} bits are {}", sig, sh, h, want)); }
        let ls = e.local_sig(sig);
        let le = e.local_edge(ls);
        let ed = e.edge(sig);
        for k in 0..3 {
            if le[k] >= nv { return Err(format!("local vertex {} >= num_vertices {} (n = {})", le[k], nv, n)); }
            if ed[k] != le[k] + sh * nv { return Err(format!("edge {:?} != local edge {:?} + shard {} * {}", ed, le, sh, nv)); }
        }
        if le[0] == le[1] || le[1] == le[2] || le[0] == le[2] { return Err(format!("edge {:?} has repeated vertices", le)); }
        let sk = e.sort_key(sig);
        if sk >= nk.max(1) { return Err(format!("sort_key {} >= num_sort_keys {}", sk, nk)); }
    }
    Ok(())
}

fn case(inp: &[u64]) -> Result<(), String> {
    let (imp, n, seed) = (inp[0] % 4, inp[1] as usize, inp[2]);
    let s2 = |r: &mut Rng| -> [u64; 2] { match r.below(8) { 0 => [u64::MAX, u64::MAX], 1 => [0, 0], 2 => [u64::MAX, 0], 3 => [1 << 63, r.next()], _ => [r.next(), r.next()] } };
    let s1 = |r: &mut Rng| -> [u64; 1] { match r.below(8) { 0 => [u64::MAX], 1 => [0], _ => [r.next()] } };
    match imp {
        // the 1.135 n bound from 100000 keys is the one of the default (sharded) edge; the unsharded one documents 1.23 n / its own c(n)
        0 => check::<[u64; 2], FuseLge3Shards>(true, n, seed, s2, |s| s[0]),
        1 => check::<[u64; 2], FuseLge3NoShards>(false, n, seed, s2, |s| s[0]),
        2 => check::<[u64; 1], FuseLge3NoShards>(false, n, seed, s1, |s| s[0]),
        _ => check::<[u64; 2], FuseLge3FullSigs>(true, n, seed, s2, |s| s[0]),
    }
}

pub fn run(case_name: &str, ctx: &mut Ctx, one: Option<&str>, rng: &mut Rng, budget: usize) {
    let _ = case_name;
    if let Some(s) = one { let inp = parse_list(s); ctx.trial(s, false, || case(&inp)); return; }
    for imp in 0..4u64 { for n in [0u64, 1, 2, 3, 4, 10, 100, 101, 1000, 99_999, 100_000, 100_001, 150_000, 800_000, 800_001, 5_000_000, 19_999_999, 20_000_000, 20_000_001, 1_000_000_000, 40_000_000_000] {
        if (imp == 1 || imp == 2) && n > 3_000_000_000 { continue; }
        let v = vec![imp, n, 7 + n]; let s = fmt_list(&v); ctx.trial(&s, false, || case(&v)); } }
    for _ in 0..budget.min(3000) {
        let n = match rng.below(5) { 0 => rng.below(200), 1 => rng.below(200_000), 2 => rng.below(2_000_000), 3 => 90_000 + rng.below(900_000), _ => rng.below(3_000_000_000) };
        let v = vec![rng.below(4), n, rng.next()]; let s = fmt_list(&v); ctx.trial(&s, false, || case(&v)); }
}
