use crate::{fmt_list, parse_list, Ctx, Rng};
use sux::prelude::*;
use sux::rank_small;

fn mk(words: &[usize], len: usize) -> BitVec<Vec<usize>> { unsafe { BitVec::from_raw_parts(words.to_vec(), len) } }

fn check<R: Rank + RankZero + NumBits + BitLength + BitCount>(name: &str, r: &R, words: &[usize], len: usize, extra: usize) -> Result<(), String> {
    let bit = |i: usize| (words[i / 64] >> (i % 64)) & 1;
    let mut pre = vec![0usize; len + 1];
    for i in 0..len { pre[i + 1] = pre[i] + bit(i); }
    if r.len() != len { return Err(format!("{}: len {} != {}", name, r.len(), len)); }
    if r.num_ones() != pre[len] { return Err(format!("{}: num_ones {} != {}", name, r.num_ones(), pre[len])); }
    if r.count_ones() != pre[len] { return Err(format!("{}: count_ones {} != {}", name, r.count_ones(), pre[len])); }
    for p in 0..=len + extra {
        let e = pre[p.min(len)];
        let g = r.rank(p);
        if g != e { return Err(format!("{}: rank({}) = {} expected {}", name, p, g, e)); }
        let z = r.rank_zero(p);
        if z != p - e { return Err(format!("{}: rank_zero({}) = {} expected {}", name, p, z, p - e)); }
    }
    Ok(())
}

/// input: [variant, len, extra, w0, w1, ...]; variant 0 = Rank9, 1..=5 RankSmall 0..4
fn rank_case(inp: &[u64]) -> Result<(), String> {
    let variant = inp[0] % 6;
    let len = inp[1] as usize;
    let extra = inp[2] as usize;
    let words: Vec<usize> = inp[3..].iter().map(|&x| x as usize).collect();
    if len > words.len() * 64 { return Ok(()); }
    let bv = mk(&words, len);
    match variant {
        0 => check("Rank9", &Rank9::new(bv), &words, len, extra),
        1 => check("RankSmall0", &rank_small![0; bv], &words, len, extra),
        2 => check("RankSmall1", &rank_small![1; bv], &words, len, extra),
        3 => check("RankSmall2", &rank_small![2; bv], &words, len, extra),
        4 => check("RankSmall3", &rank_small![3; bv], &words, len, extra),
        _ => check("RankSmall4", &rank_small![4; bv], &words, len, extra),
    }
}

pub fn run(case: &str, ctx: &mut Ctx, one: Option<&str>, rng: &mut Rng, budget: usize) {
    if let Some(s) = one {
        let inp = parse_list(s);
        ctx.trial(s, false, || rank_case(&inp));
        return;
    }
    let only9 = case == "rank9";
    let pats: [u64; 5] = [u64::MAX, 0, 0xAAAA_AAAA_AAAA_AAAA, 1 << 63, 0x8000_0000_0000_0001];
    for variant in 0..6u64 {
        if only9 && variant != 0 { continue; }
        for nw in [0usize, 1, 2, 8, 9, 16, 17, 33] {
            for &len in [0usize, 1, 63, 64, 65, nw * 64 / 2, (nw * 64).saturating_sub(1), nw * 64].iter() {
                if len > nw * 64 { continue; }
                for &p in pats.iter() {
                    let mut v = vec![variant, len as u64, 3];
                    for k in 0..nw { v.push(p.rotate_left(k as u32)); }
                    let s = fmt_list(&v);
                    ctx.trial(&s, false, || rank_case(&v));
                }
            }
        }
    }
    for _ in 0..budget.min(600) {
        let variant = if only9 { 0 } else { rng.below(6) };
        let nw = rng.below(40) as usize;
        let len = rng.below((nw * 64 + 1) as u64);
        let mut v = vec![variant, len, rng.below(4)];
        for _ in 0..nw { let r = rng.next(); v.push(match rng.below(4) { 0 => u64::MAX, 1 => 0, _ => r }); }
        let s = fmt_list(&v);
        ctx.trial(&s, false, || rank_case(&v));
    }
}
