use crate::{fmt_list, parse_list, Ctx, Rng};
use sux::prelude::*;
use sux::traits::*;

/// the bit vector of a case: `total` pushes (random with density dens / 100000, or a boundary-directed pattern for dens >= 1_000_000), then pops down to len
fn make_bits(len: usize, total: usize, dens: u64, seed: u64) -> BitVec {
    let mut rng = Rng(seed);
    let mut b = BitVec::new(0);
    if dens >= 1_000_000 {
        // boundary-directed pattern: ones (zeros when the seed is odd) at alternating gaps g - d, g + d from an unaligned start, so
        // that the span of an inventory entry sits exactly on a class boundary of the selection structures for g a power of two
        let g = (dens - 1_000_000).max(1) as usize; let d = ((seed >> 8) as usize) % (g / 2 + 1); let inv = seed & 1 == 1;
        let mut next = ((seed >> 1) % 97) as usize % g.max(1); let mut k = 0usize;
        // bits 20..24 of the seed: log2 of a cycle c (0: none), bits 24..26: every c-th gap is longer by that much (span = c * g + e)
        let c = 1usize << ((seed >> 20) & 15); let e = if c == 1 { 0 } else { ((seed >> 24) & 3) as usize };
        for i in 0..total { let hit = i == next; if hit { next += if k % 2 == 0 { g - d } else { g + d }; if k % c == c - 1 { next += e; } k += 1; if next <= i { next = i + 1; } } b.push(hit != inv); }
    } else {
    for _ in 0..total { b.push(rng.below(100_000) < dens); }
    }
    for _ in 0..total - len { b.pop(); }
    b
}

/// executable statement of C02 over every selection structure compiled by default: select(r) / select_zero(r) agree with the
/// naive scan of the logical contents for every rank (None from the count on), for vectors with stale storage beyond the length.
/// input: [len, pushed_before_pops (>= len), density per 100000, seed]
fn case(inp: &[u64]) -> Result<(), String> {
    let (len, total, dens, seed) = (inp[0] as usize, (inp[1] as usize).max(inp[0] as usize), inp[2], inp[3]);
    let b = make_bits(len, total, dens, seed);
    let ones: Vec<usize> = (0..len).filter(|&i| b[i]).collect();
    let zeros: Vec<usize> = (0..len).filter(|&i| !b[i]).collect();
    let probe = |v: &Vec<usize>| -> Vec<usize> {
        let mut r: Vec<usize> = (0..v.len().min(70)).collect();
        let n = v.len();
        for k in [n / 2, n.saturating_sub(1), n.saturating_sub(2), n / 3, 511.min(n.saturating_sub(1)), 512.min(n.saturating_sub(1)), 4095.min(n.saturating_sub(1))] { if k < n { r.push(k); } }
        let mut g = Rng(seed ^ 77);
        for _ in 0..60 { if n > 0 { r.push(g.below(n as u64) as usize); } }
        r
    };
    macro_rules! chk1 { ($name:expr, $s:expr) => {{ let s = $s;
        for r in probe(&ones) { let got = s.select(r); if got != Some(ones[r]) { return Err(format!("{}: select({}) = {:?}, expected {}", $name, r, got, ones[r])); } }
        if s.select(ones.len()).is_some() { return Err(format!("{}: select(num_ones) is Some", $name)); }
    }} }
    macro_rules! chk0 { ($name:expr, $s:expr) => {{ let s = $s;
        for r in probe(&zeros) { let got = s.select_zero(r); if got != Some(zeros[r]) { return Err(format!("{}: select_zero({}) = {:?}, expected {}", $name, r, got, zeros[r])); } }
        if s.select_zero(zeros.len()).is_some() { return Err(format!("{}: select_zero(num_zeros) is Some", $name)); }
    }} }
    let nb = || -> AddNumBits<BitVec> { b.clone().into() };
    chk1!("SelectAdapt(3)", SelectAdapt::new(nb(), 3));
    chk1!("SelectAdapt(0)", SelectAdapt::new(nb(), 0));
    chk1!("SelectAdapt::with_inv(4,1)", SelectAdapt::with_inv(nb(), 4, 1));
    chk1!("SelectAdapt::with_inv(12,3)", SelectAdapt::with_inv(nb(), 12, 3));
    chk1!("SelectAdapt::with_inv(9,0)", SelectAdapt::with_inv(nb(), 9, 0));
    chk1!("SelectAdaptConst<12,3>", SelectAdaptConst::<_, _>::new(nb()));
    chk1!("SelectAdaptConst<5,2>", SelectAdaptConst::<_, _, 5, 2>::new(nb()));
    chk0!("SelectZeroAdapt(3)", SelectZeroAdapt::new(nb(), 3));
    chk0!("SelectZeroAdapt::with_inv(4,1)", SelectZeroAdapt::with_inv(nb(), 4, 1));
    chk0!("SelectZeroAdapt::with_inv(12,2)", SelectZeroAdapt::with_inv(nb(), 12, 2));
    chk0!("SelectZeroAdapt::with_inv(13,3)", SelectZeroAdapt::with_inv(nb(), 13, 3));
    chk1!("SelectAdapt::with_inv(13,3)", SelectAdapt::with_inv(nb(), 13, 3));
    chk1!("SelectAdaptConst<13,3>", SelectAdaptConst::<_, _, 13, 3>::new(nb()));
    chk0!("SelectZeroAdaptConst<13,2>", SelectZeroAdaptConst::<_, _, 13, 2>::new(nb()));
    chk0!("SelectZeroAdaptConst<12,3>", SelectZeroAdaptConst::<_, _>::new(nb()));
    chk0!("SelectZeroAdaptConst<5,2>", SelectZeroAdaptConst::<_, _, 5, 2>::new(nb()));
    chk1!("Select9", Select9::new(Rank9::new(b.clone())));
    chk1!("SelectSmall<2,9>", SelectSmall::<2, 9, _>::new(RankSmall::<2, 9, _>::new(b.clone())));
    chk1!("SelectSmall<1,11>", SelectSmall::<1, 11, _>::new(RankSmall::<1, 11, _>::new(b.clone())));
    chk1!("SelectSmall<1,9>", SelectSmall::<1, 9, _>::new(RankSmall::<1, 9, _>::new(b.clone())));
    chk1!("SelectSmall<1,10>", SelectSmall::<1, 10, _>::new(RankSmall::<1, 10, _>::new(b.clone())));
    chk1!("SelectSmall<3,13>", SelectSmall::<3, 13, _>::new(RankSmall::<3, 13, _>::new(b.clone())));
    chk0!("SelectZeroSmall<2,9>", SelectZeroSmall::<2, 9, _>::new(RankSmall::<2, 9, _>::new(b.clone())));
    // any number of blocks per inventory entry, zero (one entry per one) included
    chk1!("SelectSmall<2,9>::with_inv(0)", SelectSmall::<2, 9, _>::with_inv(RankSmall::<2, 9, _>::new(b.clone()), 0));
    chk1!("SelectSmall<1,10>::with_inv(1)", SelectSmall::<1, 10, _>::with_inv(RankSmall::<1, 10, _>::new(b.clone()), 1));
    chk1!("SelectSmall<3,13>::with_inv(0)", SelectSmall::<3, 13, _>::with_inv(RankSmall::<3, 13, _>::new(b.clone()), 0));
    chk1!("SelectSmall<1,9>::with_inv(100)", SelectSmall::<1, 9, _>::with_inv(RankSmall::<1, 9, _>::new(b.clone()), 100));
    chk0!("SelectZeroSmall<2,9>::with_inv(0)", SelectZeroSmall::<2, 9, _>::with_inv(RankSmall::<2, 9, _>::new(b.clone()), 0));
    chk0!("SelectZeroSmall<1,11>::with_inv(1)", SelectZeroSmall::<1, 11, _>::with_inv(RankSmall::<1, 11, _>::new(b.clone()), 1));
    chk0!("SelectZeroSmall<1,10>", SelectZeroSmall::<1, 10, _>::new(RankSmall::<1, 10, _>::new(b.clone())));
    // rank through wrapper stacks (C01: forwarding impls): rank(p) = ones among the first min(p, len) bits, for p beyond len too
    { let pref: Vec<usize> = { let mut v = vec![0usize; len + 1]; for i in 0..len { v[i + 1] = v[i] + b[i] as usize; } v };
      let ps: Vec<usize> = { let mut g = Rng(seed ^ 5); let mut v = vec![0, len, len + 1, len + 77, len / 2, len.saturating_sub(1)]; for _ in 0..40 { v.push(g.below(len as u64 + 3) as usize); } v };
      macro_rules! chkr { ($name:expr, $s:expr) => {{ let s = $s; for &p in &ps { let want = pref[p.min(len)]; if s.rank(p) != want { return Err(format!("{}: rank({}) = {} expected {}", $name, p, s.rank(p), want)); }
            if s.rank_zero(p) != p - want { return Err(format!("{}: rank_zero({}) = {} expected {}", $name, p, s.rank_zero(p), p - want)); } }
            if s.num_ones() != ones.len() || s.len() != len { return Err(format!("{}: num_ones / len", $name)); } }} }
      chkr!("Select9(Rank9)", Select9::new(Rank9::new(b.clone())));
      chkr!("SelectAdapt(Rank9)", SelectAdapt::new(Rank9::new(b.clone()), 3));
      chkr!("SelectZeroAdaptConst(SelectAdaptConst(Rank9))", SelectZeroAdaptConst::<_, _>::new(SelectAdaptConst::<_, _>::new(Rank9::new(b.clone()))));
      chkr!("SelectSmall(RankSmall<1,9>)", SelectSmall::<1, 9, _>::new(RankSmall::<1, 9, _>::new(b.clone())));
      chkr!("SelectZeroSmall(SelectSmall(RankSmall<3,13>))", SelectZeroSmall::<3, 13, _>::new(SelectSmall::<3, 13, _>::new(RankSmall::<3, 13, _>::new(b.clone())))); }
    // re-wrapping with `map` over an identical backend keeps every answer (parameters other than the defaults included)
    chk1!("SelectAdaptConst<5,1>.map(id)", unsafe { SelectAdaptConst::<_, _, 5, 1>::new(nb()).map(|x| x) });
    chk0!("SelectZeroAdaptConst<5,1>.map(id)", unsafe { SelectZeroAdaptConst::<_, _, 5, 1>::new(nb()).map(|x| x) });
    chk1!("SelectAdapt(2).map(id)", unsafe { SelectAdapt::new(nb(), 2).map(|x| x) });
    chk0!("SelectZeroAdapt(2).map(id)", unsafe { SelectZeroAdapt::new(nb(), 2).map(|x| x) });
    // nesting: ones over zeros over rank
    { let s = SelectAdapt::new(SelectZeroAdapt::new(nb(), 3), 3);
      for r in probe(&ones) { if s.select(r) != Some(ones[r]) { return Err(format!("nested: select({})", r)); } }
      for r in probe(&zeros) { if s.select_zero(r) != Some(zeros[r]) { return Err(format!("nested: select_zero({})", r)); } } }
    Ok(())
}


/// vectors longer than 2^32 bits (the 32-bit counters of RankSmall / SelectSmall overflow into the upper counts there);
/// input: [extra bits above 2^32, stride of ones (sparse), seed]; ~0.6 GB per structure, built one at a time
fn big_case(inp: &[u64]) -> Result<(), String> {
    if inp.len() == 5 { return gap_case(inp); }
    let len = (1usize << 32) + inp[0] as usize;
    let stride = (inp[1] as usize).max(1000);
    let mut rng = Rng(inp[2] | 1);
    let mut b = BitVec::new(len);
    let mut ones: Vec<usize> = Vec::new();
    let mut p = rng.below(stride as u64) as usize;
    // optional fourth entry: the ones stop at that position (the rest of the vector, whole upper blocks included, is zero)
    let limit = inp.get(3).copied().filter(|&x| x > 0).map(|x| x as usize).unwrap_or(len);
    let stride = if limit < len { inp[1] as usize } else { stride };
    while p < len.min(limit) { b.set(p, true); ones.push(p); p += 1 + rng.below(2 * stride as u64) as usize; }
    // a dense burst straddling 2^32
    if limit >= len { for q in ((1usize << 32) - 300)..((1usize << 32) + 300).min(len) { if q % 3 == 0 && !b[q] { b.set(q, true); ones.push(q); } } }
    ones.sort();
    let zero_at = |r: usize| -> usize { // r-th zero by binary search over ones
        let (mut lo, mut hi) = (0usize, len); while lo < hi { let mid = (lo + hi) / 2; let z = mid + 1 - ones.partition_point(|&x| x <= mid); if z > r { hi = mid; } else { lo = mid + 1; } } lo };
    let rs: Vec<usize> = { let n = ones.len(); let mut v = vec![0, n - 1, n / 2, n - 2]; let k = ones.partition_point(|&x| x < (1 << 32)); for d in 0..6 { if k + d < n { v.push(k + d); } if k >= d + 1 { v.push(k - d - 1); } } for _ in 0..40 { v.push(rng.below(n as u64) as usize); } v };
    let nz = len - ones.len();
    let zs: Vec<usize> = { let mut v = vec![0, nz - 1, nz / 2]; let kz = (1usize << 32) - ones.partition_point(|&x| x < (1 << 32)); for d in 0..5 { v.push(kz + d); v.push(kz - d - 1); } for _ in 0..30 { v.push(rng.below(nz as u64) as usize); } v };
    let ps: Vec<usize> = { let mut v = vec![0, len, len + 5, 1 << 32, (1 << 32) - 1, (1 << 32) + 1]; for _ in 0..40 { v.push(rng.below(len as u64) as usize); } v };
    macro_rules! chk { ($name:expr, $s:expr, $sel:expr, $selz:expr) => {{ let s = $s;
        for &p in &ps { let want = ones.partition_point(|&x| x < p.min(len)); if s.rank(p) != want { return Err(format!("{}: rank({}) = {} expected {}", $name, p, s.rank(p), want)); } }
        if $sel { for &r in &rs { let g = s.select(r); if g != Some(ones[r]) { return Err(format!("{}: select({}) = {:?} expected {}", $name, r, g, ones[r])); } } }
        if $selz { for &r in &zs { let g = s.select_zero(r); let w = zero_at(r); if g != Some(w) { return Err(format!("{}: select_zero({}) = {:?} expected {}", $name, r, g, w)); } } }
    }} }
    // A-SEL (inv of select.lookup) on structures with 64-bit spans; the backend is swapped for a tiny one before the fields are rendered
    for (l, m) in [(9usize, 0usize), (11, 2), (14, 1), (16, 3)] {
        let nb: AddNumBits<BitVec> = b.clone().into();
        let s = unsafe { SelectAdapt::with_inv(nb, l, m).map(|_| -> AddNumBits<BitVec> { BitVec::new(1).into() }) };
        let nbits = len.div_ceil(64) * 64;
        check_adapt_inv_with(&format!("SelectAdapt::with_inv({},{}) over 2^32 bits", l, m), &format!("{:?}", s), nbits, ones.len(), &|p| ones.partition_point(|&x| x < p), &|p| ones.binary_search(&p).is_ok())?;
    }
    chk!("SelectZeroSmall(SelectSmall(RankSmall<2,9>))", SelectZeroSmall::<2, 9, _>::new(SelectSmall::<2, 9, _>::new(RankSmall::<2, 9, _>::new(b.clone()))), true, true);
    chk!("SelectZeroSmall(SelectSmall(RankSmall<1,11>))", SelectZeroSmall::<1, 11, _>::new(SelectSmall::<1, 11, _>::new(RankSmall::<1, 11, _>::new(b.clone()))), true, true);
    chk!("SelectZeroSmall(SelectSmall(RankSmall<3,13>))", SelectZeroSmall::<3, 13, _>::new(SelectSmall::<3, 13, _>::new(RankSmall::<3, 13, _>::new(b.clone()))), true, true);
    chk!("SelectZeroSmall(SelectSmall(RankSmall<1,9>))", SelectZeroSmall::<1, 9, _>::new(SelectSmall::<1, 9, _>::new(RankSmall::<1, 9, _>::new(b.clone()))), true, true);
    chk!("SelectZeroSmall(SelectSmall(RankSmall<1,10>))", SelectZeroSmall::<1, 10, _>::new(SelectSmall::<1, 10, _>::new(RankSmall::<1, 10, _>::new(b.clone()))), true, true);
    chk!("SelectZeroAdapt(SelectAdapt(Rank9))", SelectZeroAdapt::new(SelectAdapt::new(Rank9::new(b.clone()), 3), 3), true, true);
    { let s = Select9::new(Rank9::new(b.clone()));
      for &p in &ps { let want = ones.partition_point(|&x| x < p.min(len)); if s.rank(p) != want { return Err(format!("Select9: rank({})", p)); } }
      for &r in &rs { let g = s.select(r); if g != Some(ones[r]) { return Err(format!("Select9: select({}) = {:?} expected {}", r, g, ones[r])); } } }
    Ok(())
}

/// upper blocks (2^32 bits) WITHOUT an inventory element between upper blocks that have some; input [n0, offset in block 1, start in block 2, zeros?, 1]:
/// n0 selected bits at the even positions of upper block 0, a single one in upper block 1, a thousand in upper block 2
fn gap_case(inp: &[u64]) -> Result<(), String> {
    let (n0, off1, off2, zeros) = (inp[0] as usize, inp[1] as usize, inp[2] as usize, inp[3] != 0);
    let len: usize = (1usize << 33) + (1 << 20);
    let mut b = BitVec::new(len);
    if zeros { b.fill(true); }
    let mut sel: Vec<usize> = Vec::new();
    for i in 0..n0 { b.set(2 * i, !zeros); sel.push(2 * i); }
    let p1 = (1usize << 32) + off1; b.set(p1, !zeros); sel.push(p1);
    for k in 0..1000usize { let p = (1usize << 33) + off2 + 3 * k; b.set(p, !zeros); sel.push(p); }
    let n = sel.len();
    let rs = [n0, n0 - 1, n0 + 1, n0 + 2, 0, n - 1, n0 / 2, n0 + 500];
    // A-SELS over three upper blocks
    if zeros { check_small_inv("SelectZeroSmall<2,9> (3 upper blocks)", &lean_debug(&SelectZeroSmall::<2, 9, _>::new(RankSmall::<2, 9, _>::new(b.clone()))), &sel, len)?; }
    else { check_small_inv("SelectSmall<2,9> (3 upper blocks)", &lean_debug(&SelectSmall::<2, 9, _>::new(RankSmall::<2, 9, _>::new(b.clone()))), &sel, len)?;
           check_small_inv("SelectSmall<1,11>::with_inv(0) (3 upper blocks)", &lean_debug(&SelectSmall::<1, 11, _>::with_inv(RankSmall::<1, 11, _>::new(b.clone()), 0)), &sel, len)?; }
    macro_rules! chk { ($name:expr, $s:expr) => {{ let s = $s; for &r in &rs { let g = s.select(r); if g != Some(sel[r]) { return Err(format!("{}: select({}) = {:?} expected {}", $name, r, g, sel[r])); } } }} }
    macro_rules! chkz { ($name:expr, $s:expr) => {{ let s = $s; for &r in &rs { let g = s.select_zero(r); if g != Some(sel[r]) { return Err(format!("{}: select_zero({}) = {:?} expected {}", $name, r, g, sel[r])); } } }} }
    if zeros {
        chkz!("SelectZeroSmall<2,9>", SelectZeroSmall::<2, 9, _>::new(RankSmall::<2, 9, _>::new(b.clone())));
        chkz!("SelectZeroSmall<1,11>", SelectZeroSmall::<1, 11, _>::new(RankSmall::<1, 11, _>::new(b.clone())));
        chkz!("SelectZeroSmall<3,13>", SelectZeroSmall::<3, 13, _>::new(RankSmall::<3, 13, _>::new(b.clone())));
        chkz!("SelectZeroAdapt", SelectZeroAdapt::new({ let x: AddNumBits<BitVec> = b.clone().into(); x }, 3));
    } else {
        chk!("SelectSmall<2,9>", SelectSmall::<2, 9, _>::new(RankSmall::<2, 9, _>::new(b.clone())));
        chk!("SelectSmall<1,9>", SelectSmall::<1, 9, _>::new(RankSmall::<1, 9, _>::new(b.clone())));
        chk!("SelectSmall<1,10>", SelectSmall::<1, 10, _>::new(RankSmall::<1, 10, _>::new(b.clone())));
        chk!("SelectSmall<3,13>", SelectSmall::<3, 13, _>::new(RankSmall::<3, 13, _>::new(b.clone())));
        chk!("Select9", Select9::new(Rank9::new(b.clone())));
        chk!("SelectAdapt", SelectAdapt::new({ let x: AddNumBits<BitVec> = b.clone().into(); x }, 3));
    }
    Ok(())
}

pub fn run(case_name: &str, ctx: &mut Ctx, one: Option<&str>, rng: &mut Rng, budget: usize) {
    if case_name == "select_big" {
        if let Some(s) = one { let inp = parse_list(s); ctx.trial(s, false, || big_case(&inp)); return; }
        for v in [vec![4096u64, 400_000, 5], vec![1 << 30, 3_000_000, 9], vec![(1 << 32) + 4096, 4, 11, 1 << 22], vec![(1 << 32) + 77, 300, 13, (1 << 32) + 5000], vec![(1 << 24) + 1, (1 << 31) + 12345, 100, 0, 1], vec![(1 << 24) + 1, (1 << 31) + 777, 100, 1, 1], vec![(1 << 23) + 3, 5, 4000, 0, 1]] { if budget < 1000 && v[0] > 5000 { continue; } let s = fmt_list(&v); ctx.trial(&s, false, || big_case(&v)); }
        return;
    }
    let inv_mode = case_name == "select_inv";
    let case = |v: &[u64]| -> Result<(), String> { if inv_mode { inv_case(v) } else { case(v) } };
    if let Some(s) = one { let inp = parse_list(s); ctx.trial(s, false, || case(&inp)); return; }
    for len in [0u64, 1, 63, 64, 65, 127, 128, 129, 1000, 8192, 20000, 70000, 1 << 20, (1 << 21) + 77] { for dens in [0u64, 100_000, 50_000, 500, 2000, 12_500, 99_500, 30, 3] { for extra in [0u64, 700] {
        let v = vec![len, len + extra, dens, 3 + len + dens]; let s = fmt_list(&v); ctx.trial(&s, false, || case(&v));
    } } }
    // class boundaries: Select9 (512 ones per entry: spans 2, 16, 128, 256, 512 groups of 256 bits), SelectAdapt* (spans 2^16 / 2^16 + 1 bits)
    for g in [1u64, 2, 4, 8, 16, 32, 64, 127, 128, 129, 256, 512, 1024] { for seed in [0u64, 1, 2 + (5 << 8), 3 + (9 << 8), 40 + (28 << 8), 41 + (1 << 8)] {
        let len = (g * 1300 + 77).min(700_000);
        let v = vec![len, len + (seed % 3) * 300, 1_000_000 + g, seed]; let s = fmt_list(&v); ctx.trial(&s, false, || case(&v));
    } }
    for (g, lc) in [(4096u64, 4u64), (2048, 5), (128, 9), (16, 12), (65536, 4), (8192, 3), (16, 13), (128, 13), (32, 12), (64, 12)] { for e in [0u64, 1, 2] { for par in [0u64, 1] {
        let len = (g << lc) * 4 + 1000;
        let v = vec![len, len, 1_000_000 + g, par + (lc << 20) + (e << 24)]; let s = fmt_list(&v); ctx.trial(&s, false, || case(&v));
    } } }
    // counts that are exact multiples of the inventory quantum (2^12 with the default parameters, 2^10 / 2^11) with no or a ragged tail,
    // at gaps that put the full last entry in the 16-bit (g <= 16) and in the 32-bit class (g >= 17): the last entry then needs as much
    // spill as any other one (parity 1: the same for zeros)
    for g in [1u64, 3, 16, 17, 20, 40, 300] { for c in [1024u64, 2048, 4096, 8192] { for tail in [0u64, g - 1] { for par in [0u64, 1] {
        let len = (c - 1) * g + 1 + tail;
        if len > 2_500_000 { continue; }
        let v = vec![len, len + 130 * par, 1_000_000 + g, par]; let s = fmt_list(&v); ctx.trial(&s, false, || case(&v));
    } } } }
    for _ in 0..budget / 4 {
        let g = [1u64, 2, 8, 16, 64, 128, 256, 512][rng.below(8) as usize] * [1, 1, 1, 2, 4][rng.below(5) as usize];
        let len = (g * (600 + rng.below(1500))).min(900_000);
        let v = vec![len, len + rng.below(3) * rng.below(2000), 1_000_000 + g, rng.next()]; let s = fmt_list(&v); ctx.trial(&s, false, || case(&v));
    }
    for _ in 0..budget {
        let len = match rng.below(6) { 0 => rng.below(300), 1 => rng.below(5000), 2 => rng.below(40000), 3 => 128 * rng.below(300), 4 => 512 * 64 * rng.below(8) + rng.below(3) * rng.below(600), _ => rng.below(400_000) };
        let v = vec![len, len + rng.below(3) * rng.below(2000), [0, 1, 3, 30, 100, 500, 2000, 6000, 12_500, 50_000, 90_000, 99_900, 99_999, 100_000][rng.below(14) as usize], rng.next()];
        let s = fmt_list(&v); ctx.trial(&s, false, || case(&v));
    }
}

// ---- select_inv: the executable copy of `inv()` of unit select.lookup (assumption A-SEL), evaluated on the fields of real structures ----
// The fields are private; they are read from the `Debug` rendering of the structure (derived, prints every field).
fn dbg_list(s: &str, field: &str) -> Result<Vec<usize>, String> {
    let key = format!(" {}: [", field);   // leading space: `inventory` is not the tail of `subinventory`
    let a = s.rfind(&key).ok_or_else(|| format!("field {} not found in Debug output", field))? + key.len();
    let b = a + s[a..].find(']').ok_or("unterminated list")?;
    s[a..b].split(',').map(|x| x.trim()).filter(|x| !x.is_empty()).map(|x| x.parse::<usize>().map_err(|e| format!("{}: {}", x, e))).collect()
}
fn dbg_num(s: &str, field: &str) -> Result<usize, String> {
    let key = format!(" {}: ", field);
    let a = s.rfind(&key).ok_or_else(|| format!("field {} not found in Debug output", field))? + key.len();
    let t: String = s[a..].chars().take_while(|c| c.is_ascii_digit()).collect();
    t.parse::<usize>().map_err(|e| format!("{}: {}", field, e))
}

/// `inv()` of contracts/select.lookup.vc, clause by clause, over (words, len) and the parsed fields; `zeros`: the structure selects zeros
fn check_adapt_inv(name: &str, dbg: &str, words: &[usize], len: usize, zeros: bool) -> Result<(), String> {
    let bit = |p: usize| -> bool { ((words[p / 64] >> (p % 64)) & 1 != 0) != zeros };
    let nbits = words.len() * 64;
    let mut pref = vec![0usize; nbits + 1];
    for p in 0..nbits { pref[p + 1] = pref[p] + bit(p) as usize; }
    check_adapt_inv_with(name, dbg, nbits, pref[len], &|p| pref[p], &bit)
}

/// the same over oracles: rank(p) = number of selected bits before p (p <= nbits), bit(p) for p < nbits
fn check_adapt_inv_with(name: &str, dbg: &str, nbits: usize, num: usize, rank: &dyn Fn(usize) -> usize, bit: &dyn Fn(usize) -> bool) -> Result<(), String> {
    let inv = dbg_list(dbg, "inventory")?; let sp = dbg_list(dbg, "spill")?;
    // the const-parameter variants keep L and M in the type: the caller passes them in the name as `<L,M>`; S16 is the documented L.saturating_sub(M + 2)
    let (l, s16, m) = if dbg.contains("log2_ones_per_inventory") { (dbg_num(dbg, "log2_ones_per_inventory")?, dbg_num(dbg, "log2_ones_per_sub16")?, dbg_num(dbg, "log2_u64_per_subinventory")?) }
        else { let a = name.find('<').ok_or("no parameters")?; let t: Vec<usize> = name[a + 1..name.find('>').ok_or("no parameters")?].split(',').map(|x| x.trim().parse().unwrap()).collect(); (t[0], t[0].saturating_sub(t[1] + 2), t[1]) };
    if dbg.contains("ones_per_inventory_mask") && (dbg_num(dbg, "ones_per_inventory_mask")? != (1usize << l) - 1 || dbg_num(dbg, "ones_per_sub16_mask")? != (1usize << s16) - 1) { return Err(format!("{}: masks do not match the logarithms", name)); }
    let e = |msg: String| -> Result<(), String> { Err(format!("{}: A-SEL (inv of select.lookup) does not hold: {}", name, msg)) };
    if !(l < 60 && m <= l && s16 <= l) { return e(format!("parameters L={} M={} S16={}", l, m, s16)); }
    let u64s = 1usize << m;
    let hint_ok = |p: usize, r: usize| -> bool { p < nbits && rank(p) == r };
    let sel_ok = |p: usize, r: usize| -> bool { p < nbits && bit(p) && rank(p) == r };
    let u16v = |a: &Vec<usize>, base: usize, k: usize| -> Option<usize> { <[usize]>::get(a, base + k / 4).map(|w| (w >> (16 * (k % 4))) & 0xFFFF) };
    let u32v = |a: &Vec<usize>, base: usize, k: usize| -> Option<usize> { <[usize]>::get(a, base + k / 2).map(|w| (w >> (32 * (k % 2))) & 0xFFFF_FFFF) };
    let getv = |w: usize| w % 0x4000_0000_0000_0000;
    let mut j = 0usize;
    while (j << l) < num {
        let s = j * (u64s + 1);
        if !(s + u64s + 1 < inv.len()) { return e(format!("entry {} ends beyond the inventory ({} words)", j, inv.len())); }
        let w = inv[s]; let base = j << l;
        if let Ok(t) = std::env::var("WITNESS_SELFTEST") { if (t == "32" && w >= 0x8000_0000_0000_0000 && w < 0xC000_0000_0000_0000) || (t == "64" && w >= 0xC000_0000_0000_0000) { return e(format!("selftest: class {} entry seen", t)); } }
        for sub in 0..(1usize << l) {
            if base + sub >= num { break; }
            if w < 0x8000_0000_0000_0000 {
                let k = sub >> s16;
                match u16v(&inv, s + 1, k) { Some(o) if hint_ok(w + o, base + (k << s16)) => {}, x => return e(format!("16-bit entry {} sub {}: field {:?}", j, sub, x)) }
            } else if w < 0xC000_0000_0000_0000 {
                let (pos, nxt) = (getv(w), getv(inv[s + u64s + 1]));
                if nxt < pos || nxt - pos < 0x10000 { return e(format!("32-bit entry {} has span {}", j, nxt.wrapping_sub(pos))); }
                let s32 = s16.saturating_sub(((nxt - pos) >> 15).ilog2() as usize + 1);
                let k = sub >> s32; let hr = base + (k << s32);
                let o = if k < (u64s - 1) * 2 { u32v(&inv, s + 2, k) } else { u32v(&sp, inv[s + 1], k - (u64s - 1) * 2) };
                match o { Some(o) if hint_ok(pos + o, hr) => {}, x => return e(format!("32-bit entry {} sub {}: field {:?}", j, sub, x)) }
            } else {
                let p = if sub == 0 { Some(getv(w)) } else if sub < u64s { <[usize]>::get(&inv, s + 1 + sub).copied() } else { <[usize]>::get(&sp, inv[s + 1] + sub - u64s).copied() };
                match p { Some(p) if sel_ok(p, base + sub) => {}, x => return e(format!("64-bit entry {} sub {}: position {:?}", j, sub, x)) }
            }
        }
        j += 1;
    }
    Ok(())
}

/// `inv9()` of contracts/select9.lookup.vc (assumption A-SEL9) on the fields of a real Select9, clause by clause
fn check_select9_inv(dbg: &str, words: &[usize], len: usize) -> Result<(), String> {
    let inv = dbg_list(dbg, "inventory")?; let sub = dbg_list(dbg, "subinventory")?;
    let inventory_size = dbg_num(dbg, "inventory_size")?; let subinventory_size = dbg_num(dbg, "subinventory_size")?;
    let mut counts: Vec<usize> = Vec::new();
    { let mut rest = dbg; while let Some(a) = rest.find("absolute: ") { let t: String = rest[a + 10..].chars().take_while(|c| c.is_ascii_digit()).collect(); counts.push(t.parse().map_err(|_| "absolute")?); rest = &rest[a + 10..]; } }
    let nbits = words.len() * 64;
    let bit = |p: usize| -> bool { (words[p / 64] >> (p % 64)) & 1 != 0 };
    let mut pref = vec![0usize; nbits + 1];
    for p in 0..nbits { pref[p + 1] = pref[p] + bit(p) as usize; }
    let num = pref[len];
    let e = |msg: String| -> Result<(), String> { Err(format!("Select9: A-SEL9 (inv9 of select9.lookup) does not hold: {}", msg)) };
    if subinventory_size != sub.len() || inv.len() != inventory_size + 1 || num > 512 * inventory_size { return e("sizes".into()); }
    if counts.len() != (len + 511) / 512 + 1 { return e(format!("{} counters for {} bits", counts.len(), len)); }
    for i in 0..inventory_size { if inv[i] > inv[i + 1] || inv[i] / 64 >= words.len() { return e(format!("inventory[{}] = {} (next {})", i, inv[i], inv[i + 1])); } }
    let sel_ok = |p: usize, r: usize| -> bool { p < nbits && bit(p) && pref[p] == r };
    let le16 = |x: usize, r: usize| -> usize { (0..4).filter(|i| (x >> (16 * i)) & 0xFFFF <= r).count() };
    let in_block = |b: usize, rank: usize| -> bool { b + 1 < counts.len() && counts[b] <= rank && rank < counts[b + 1] };
    let subw = |i: usize| -> Option<usize> { <[usize]>::get(&sub, i).copied() };
    for rank in 0..num {
        let idx = rank >> 9;
        let (il, ir) = (inv[idx], inv[idx + 1]);
        let (bl, br) = (il / 64, ir / 64);
        let span = br / 4 - bl / 4; let sp = bl / 4; let bb = bl / 8;
        if bb >= counts.len() || counts[bb] > rank { return e(format!("rank {}: block {} of its entry starts after it", rank, bb)); }
        let r = rank - counts[bb];
        let ok = if span <= 1 { in_block(bb, rank) }
            else if span <= 15 { match (subw(sp), subw(sp + 1)) { (Some(a), Some(b)) => r < 0x10000 && in_block(bb + le16(a, r) + le16(b, r), rank), _ => false } }
            else if span <= 127 { match (subw(sp), subw(sp + 1)) { (Some(a), Some(b)) => { let c0 = le16(a, r) + le16(b, r);
                    match (subw(sp + 2 * c0 + 2), subw(sp + 2 * c0 + 3)) { (Some(a2), Some(b2)) => r < 0x10000 && in_block(bb + 8 * c0 + le16(a2, r) + le16(b2, r), rank), _ => false } }, _ => false } }
            else if span <= 255 { let k = rank % 512; subw(sp + k / 4).map(|w| sel_ok(il + ((w >> (16 * (k % 4))) & 0xFFFF), rank)).unwrap_or(false) }
            else if span <= 511 { let k = rank % 512; subw(sp + k / 2).map(|w| sel_ok(il + ((w >> (32 * (k % 2))) & 0xFFFF_FFFF), rank)).unwrap_or(false) }
            else { subw(sp + rank % 512).map(|p| sel_ok(p, rank)).unwrap_or(false) };
        if !ok { return e(format!("rank {} (entry {}, span {} groups) is not served as promised", rank, idx, span)); }
        if let Ok(t) = std::env::var("WITNESS_SELFTEST") { if t == format!("s9_{}", if span <= 1 { 0 } else if span <= 15 { 1 } else if span <= 127 { 2 } else if span <= 255 { 3 } else if span <= 511 { 4 } else { 5 }) { return e(format!("selftest: class {} seen", t)); } }
    }
    Ok(())
}

/// Debug rendering without the long lists (`bits: [..]`, `counts: [..]`): enough to read the selection arrays of structures over 2^33 bits
struct LeanSink { buf: String, skipping: bool }
impl std::fmt::Write for LeanSink {
    fn write_str(&mut self, s: &str) -> std::fmt::Result {
        if self.skipping { if let Some(k) = s.find(']') { self.skipping = false; self.buf.push_str(&s[k..]); } return Ok(()); }
        self.buf.push_str(s);
        if self.buf.ends_with(" bits: [") || self.buf.ends_with(" counts: [") { self.skipping = true; }
        Ok(())
    }
}
fn lean_debug<T: std::fmt::Debug>(x: &T) -> String { use std::fmt::Write; let mut k = LeanSink { buf: String::new(), skipping: false }; let _ = write!(k, "{:?}", x); k.buf }

/// `inv_small()` of contracts/select_small.lookup.vc (assumption A-SELS) on the arrays of a real SelectSmall / SelectZeroSmall; `sel` = positions of
/// the selected bits (ones, or zeros), `len` the length; the RankSmall part of the invariant is proved (unit rank_small) and not re-checked here
fn check_small_inv(name: &str, dbg: &str, sel: &[usize], len: usize) -> Result<(), String> {
    if sel.is_empty() { return Ok(()); }
    let inv = dbg_list(dbg, "inventory")?; let begin = dbg_list(dbg, "inventory_begin")?; let upper = dbg_list(dbg, "upper_counts")?;
    let l = dbg_num(dbg, "log2_ones_per_inventory")?;
    let e = |msg: String| -> Result<(), String> { Err(format!("{}: A-SELS (inv_small of select_small.lookup) does not hold: {}", name, msg)) };
    let ucl = upper.len();
    if ucl != (len.div_ceil(64)).div_ceil(1 << 26) { return e(format!("{} upper counts for {} bits", ucl, len)); }
    if !(l < 60 && begin.len() > ucl && begin[0] == 0) { return e(format!("l = {}, {} begins for {} upper blocks, first {}", l, begin.len(), ucl, begin.first().copied().unwrap_or(99))); }
    let num = sel.len();
    if !((inv.len() - 1) << l < num && num <= inv.len() << l) { return e(format!("{} entries for {} selected bits, l = {}", inv.len(), num, l)); }
    for c in ucl..begin.len() { if begin[c] < inv.len() { return e(format!("sentinel {} = {} below the inventory length {}", c, begin[c], inv.len())); } }
    for i in 0..inv.len() {
        let p = sel[i << l];
        if inv[i] != p % (1usize << 32) { return e(format!("entry {} = {} for position {}", i, inv[i], p)); }
        let sb = p >> 32;
        for c in 0..begin.len() {
            if begin[c] <= i && c < ucl && !(c <= sb) { return e(format!("entry {} (upper block {}) at or after begin[{}] = {}", i, sb, c, begin[c])); }
            if begin[c] > i && !(sb < c) { return e(format!("entry {} (upper block {}) before begin[{}] = {}", i, sb, c, begin[c])); }
        }
    }
    Ok(())
}

/// input: as for select_all ([len, pushed_before_pops, density or pattern, seed])
fn inv_case(inp: &[u64]) -> Result<(), String> {
    let (len, total, dens, seed) = (inp[0] as usize, (inp[1] as usize).max(inp[0] as usize), inp[2], inp[3]);
    let b = make_bits(len, total, dens, seed);
    let words: Vec<usize> = b.as_ref().to_vec();
    let nb = || -> AddNumBits<BitVec> { b.clone().into() };
    // self-test of the checker (WITNESS_SELFTEST=1): the same structures read with the wrong field order must NOT satisfy the invariant
    if std::env::var("WITNESS_SELFTEST").map(|t| t == "1").unwrap_or(false) { let w2: Vec<usize> = words.iter().map(|w| w.rotate_left(1)).collect(); return check_adapt_inv("selftest", &format!("{:?}", SelectAdapt::new(nb(), 3)), &w2, len, false); }
    check_adapt_inv("SelectAdapt(3)", &format!("{:?}", SelectAdapt::new(nb(), 3)), &words, len, false)?;
    check_adapt_inv("SelectAdapt::with_inv(4,1)", &format!("{:?}", SelectAdapt::with_inv(nb(), 4, 1)), &words, len, false)?;
    check_adapt_inv("SelectAdapt::with_inv(9,0)", &format!("{:?}", SelectAdapt::with_inv(nb(), 9, 0)), &words, len, false)?;
    check_adapt_inv("SelectAdapt::with_inv(12,3)", &format!("{:?}", SelectAdapt::with_inv(nb(), 12, 3)), &words, len, false)?;
    check_select9_inv(&format!("{:?}", Select9::new(Rank9::new(b.clone()))), &words, len)?;
    { let ones: Vec<usize> = (0..len).filter(|&i| b[i]).collect(); let zeros: Vec<usize> = (0..len).filter(|&i| !b[i]).collect();
      check_small_inv("SelectSmall<2,9>", &lean_debug(&SelectSmall::<2, 9, _>::new(RankSmall::<2, 9, _>::new(b.clone()))), &ones, len)?;
      check_small_inv("SelectSmall<1,10>::with_inv(0)", &lean_debug(&SelectSmall::<1, 10, _>::with_inv(RankSmall::<1, 10, _>::new(b.clone()), 0)), &ones, len)?;
      check_small_inv("SelectSmall<3,13>::with_inv(1)", &lean_debug(&SelectSmall::<3, 13, _>::with_inv(RankSmall::<3, 13, _>::new(b.clone()), 1)), &ones, len)?;
      check_small_inv("SelectSmall<1,9>", &lean_debug(&SelectSmall::<1, 9, _>::new(RankSmall::<1, 9, _>::new(b.clone()))), &ones, len)?;
      check_small_inv("SelectSmall<1,11>", &lean_debug(&SelectSmall::<1, 11, _>::new(RankSmall::<1, 11, _>::new(b.clone()))), &ones, len)?;
      check_small_inv("SelectZeroSmall<2,9>", &lean_debug(&SelectZeroSmall::<2, 9, _>::new(RankSmall::<2, 9, _>::new(b.clone()))), &zeros, len)?;
      check_small_inv("SelectZeroSmall<1,11>::with_inv(0)", &lean_debug(&SelectZeroSmall::<1, 11, _>::with_inv(RankSmall::<1, 11, _>::new(b.clone()), 0)), &zeros, len)?; }
    check_adapt_inv("SelectZeroAdapt(3)", &format!("{:?}", SelectZeroAdapt::new(nb(), 3)), &words, len, true)?;
    check_adapt_inv("SelectZeroAdapt::with_inv(4,1)", &format!("{:?}", SelectZeroAdapt::with_inv(nb(), 4, 1)), &words, len, true)?;
    check_adapt_inv("SelectZeroAdapt::with_inv(12,2)", &format!("{:?}", SelectZeroAdapt::with_inv(nb(), 12, 2)), &words, len, true)?;
    check_adapt_inv("SelectAdaptConst<12,3>", &format!("{:?}", SelectAdaptConst::<_, _>::new(nb())), &words, len, false)?;
    check_adapt_inv("SelectAdaptConst<5,2>", &format!("{:?}", SelectAdaptConst::<_, _, 5, 2>::new(nb())), &words, len, false)?;
    check_adapt_inv("SelectAdaptConst<5,1>", &format!("{:?}", SelectAdaptConst::<_, _, 5, 1>::new(nb())), &words, len, false)?;
    check_adapt_inv("SelectAdaptConst<9,0>", &format!("{:?}", SelectAdaptConst::<_, _, 9, 0>::new(nb())), &words, len, false)?;
    check_adapt_inv("SelectZeroAdaptConst<12,3>", &format!("{:?}", SelectZeroAdaptConst::<_, _>::new(nb())), &words, len, true)?;
    check_adapt_inv("SelectZeroAdaptConst<5,2>", &format!("{:?}", SelectZeroAdaptConst::<_, _, 5, 2>::new(nb())), &words, len, true)?;
    check_adapt_inv("SelectZeroAdaptConst<4,1>", &format!("{:?}", SelectZeroAdaptConst::<_, _, 4, 1>::new(nb())), &words, len, true)?;
    Ok(())
}
