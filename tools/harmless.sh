#!/bin/bash
# harmless.sh : apply semantics-preserving edits to a scratch worktree of /repo HEAD and run the affected checks;
# every result must be exit 0 (still proved) or exit 2 (inconclusive) -- never a VIOLATION. Prints one line per edit.
SCR=/tmp/verif-harmless; rm -rf $SCR; mkdir -p $SCR; git -C /repo worktree prune; git -C /repo worktree add --detach $SCR/repo HEAD -q || exit 1
export VERIF_REPO=$SCR/repo VERIF_EVIDENCE_DIR=/tmp/verif-seed-evidence; mkdir -p $VERIF_EVIDENCE_DIR
cd /verif
run() { # name prop file python-edit
  python3 - "$SCR/repo/$3" <<PY
import sys,re
p=sys.argv[1]; s=open(p).read(); o=s
$4
assert s!=o, 'edit did not apply'
open(p,'w').write(s)
PY
  if [ $? -ne 0 ]; then echo "$1: EDIT FAILED"; git -C $SCR/repo checkout -q -- .; return; fi
  out=$(./vcheck run $2 2>&1); rc=$?
  echo "$1 [$2]: rc=$rc $(echo "$out" | grep -E '^(VIOLATION|INCONCLUSIVE|NOTE)' | head -2 | cut -c1-160 | tr '\n' ' ')"
  git -C $SCR/repo checkout -q -- .
}
run "rename local in BitVec::push" C06 src/bits/bit_vec.rs 's=s.replace("let word_index = self.len / BITS;\n        let bit_index = self.len % BITS;\n        // Clear bit\n        self.bits[word_index] &= !(1 << bit_index);\n        // Set bit\n        self.bits[word_index] |= (b as usize) << bit_index;","let w = self.len / BITS;\n        let bit_index = self.len % BITS;\n        // Clear bit\n        self.bits[w] &= !(1 << bit_index);\n        // Set bit\n        self.bits[w] |= (b as usize) << bit_index;")'
run "reorder independent lets in BitVec::push" C06 src/bits/bit_vec.rs 's=s.replace("let word_index = self.len / BITS;\n        let bit_index = self.len % BITS;\n        // Clear bit","let bit_index = self.len % BITS;\n        let word_index = self.len / BITS;\n        // Clear bit")'
run "shift instead of division in BitVec::get_unchecked" C06 src/bits/bit_vec.rs 's=s.replace("    pub unsafe fn get_unchecked(&self, index: usize) -> bool {\n        let word_index = index / BITS;","    pub unsafe fn get_unchecked(&self, index: usize) -> bool {\n        let word_index = index >> 6;")'
run "extra comment and blank lines in Rank9::new" C01 src/rank_sel/rank9.rs 's=s.replace("let mut num_ones = 0;","// running total\n\n        let mut num_ones = 0;",1)'
run "set then clear merged into one expression in BitVec::push" C06 src/bits/bit_vec.rs 's=s.replace("        // Clear bit\n        self.bits[word_index] &= !(1 << bit_index);\n        // Set bit\n        self.bits[word_index] |= (b as usize) << bit_index;","        self.bits[word_index] = (self.bits[word_index] & !(1 << bit_index)) | ((b as usize) << bit_index);")'
run "EliasFano get_unchecked: operands of | swapped" C03 src/dict/elias_fano.rs 's=s.replace("        (high_bits << self.l) | low_bits\n","        low_bits | (high_bits << self.l)\n",1)'
run "BitVec::set_unchecked: mask instead of modulo" C06 src/bits/bit_vec.rs 's=s.replace("    pub unsafe fn set_unchecked(&mut self, index: usize, value: bool) {\n        let word_index = index / BITS;\n        let bit_index = index % BITS;","    pub unsafe fn set_unchecked(&mut self, index: usize, value: bool) {\n        let word_index = index / BITS;\n        let bit_index = index & 63;")'
run "BitFieldVec::get_unchecked: operands of | swapped" C05 src/bits/bit_field_vec.rs 's=s.replace("            ((*bits.get_unchecked(word_index) >> bit_index)\n                | (*bits.get_unchecked(word_index + 1) << (W::BITS - bit_index)))\n                & self.mask","            ((*bits.get_unchecked(word_index + 1) << (W::BITS - bit_index))\n                | (*bits.get_unchecked(word_index) >> bit_index))\n                & self.mask",1)'
run "BitFieldVec::get_unchecked: mask applied first in one-word case" C05 src/bits/bit_field_vec.rs 's=s.replace("            (*bits.get_unchecked(word_index) >> bit_index) & self.mask\n","            self.mask & (*bits.get_unchecked(word_index) >> bit_index)\n",1)'
run "Rank9::rank_unchecked-like: BitVec::count_ones unchanged, pop with early return style" C06 src/bits/bit_vec.rs 's=s.replace("    pub fn pop(&mut self) -> Option<bool> {\n        if self.len == 0 {\n            return None;\n        }","    pub fn pop(&mut self) -> Option<bool> {\n        if self.is_empty_len() {\n            return None;\n        }",1) if False else s.replace("        if self.len == 0 {\n            return None;\n        }","        if 0 == self.len {\n            return None;\n        }",1)'
run "rcl get_in_place: offset computed before block" C09 src/dict/rear_coded_list.rs 's=s.replace("        let block = index / self.k;\n        let offset = index % self.k;\n\n        let start = self.pointers.as_ref()[block];","        let offset = index % self.k;\n        let block = index / self.k;\n\n        let start = self.pointers.as_ref()[block];",1)'
run "shard_edge: edge_1 unchanged, FuseLge3Shards::shard with explicit parentheses" C16 src/func/shard_edge.rs 's=s.replace("sig[0] >> self.shard_bits_shift >> 1","((sig[0] >> self.shard_bits_shift) >> 1)",1)'
run "edge_2: xor written as x = x ^ m, mask operands swapped" C16 src/func/shard_edge.rs 's=s.replace("        let mut v1 = v0 + segment_size;\n        v1 ^= (sig[1] >> 32) as usize & segment_mask;\n        let mut v2 = v1 + segment_size;\n        v2 ^= sig[1] as u32 as usize & segment_mask;\n        [v0, v1, v2]\n    }\n\n    impl FuseLge3Shards","        let mut v1 = v0 + segment_size;\n        v1 = v1 ^ (segment_mask & (sig[1] >> 32) as usize);\n        let mut v2 = segment_size + v1;\n        v2 ^= sig[1] as u32 as usize & segment_mask;\n        [v0, v1, v2]\n    }\n\n    impl FuseLge3Shards",1)'
run "edge_1: start computed with the addition commuted" C16 src/func/shard_edge.rs 's=s.replace("        let start = (shard * (l as usize + 2)) << log2_seg_size;\n        let v0 = start + fixed_point_inv_128!(sig[0], (l as u64) << log2_seg_size);","        let start = ((2 + l as usize) * shard) << log2_seg_size;\n        let v0 = fixed_point_inv_128!(sig[0], (l as u64) << log2_seg_size) + start;",1)'
run "Rank9 rank_unchecked: unchanged semantics, word index via shift" C01 src/rank_sel/rank9.rs 's=s.replace("let word_pos = pos / usize::BITS as usize;","let word_pos = pos >> 6;",1) if "let word_pos = pos / usize::BITS as usize;" in s else s.replace("pos / 64","pos >> 6",1)'
run "EliasFano succ_unchecked-like: get with explicit parentheses" C03 src/dict/elias_fano.rs 's=s.replace("        let high_bits = self.high_bits.select_unchecked(index) - index;\n        let low_bits = self.low_bits.get_unchecked(index);","        let low_bits = self.low_bits.get_unchecked(index);\n        let high_bits = self.high_bits.select_unchecked(index) - index;",1)'
run "rcl push: swap order of clear/extend of last_str with len increment" C09 src/dict/rear_coded_list.rs 's=s.replace("        self.last_str.clear();\n        self.last_str.extend_from_slice(string.as_bytes());\n        self.len += 1;","        self.len += 1;\n        self.last_str.clear();\n        self.last_str.extend_from_slice(string.as_bytes());")'
run "lenders next: match arms reordered" C20 src/utils/lenders.rs 's=s.replace("        Err(e) => Some(Err(e)),\n        Ok(0) => None,","        Ok(0) => None,\n        Err(e) => Some(Err(e)),")'
git -C /repo worktree remove --force $SCR/repo; rm -rf $SCR
