#!/usr/bin/env python3
"""Write seeded/README.md (one row per stored seeded change) from seeded/*/meta.json and seeded/detection.json,
and print the summary paragraph used in DESIGN.md 9.7."""
import json, os, re
root = '/verif/seeded'
det = json.load(open(os.path.join(root, 'detection.json')))
claims = json.load(open('/verif/claims.json'))
rows = []
for sid in sorted(os.listdir(root)):
    mp = os.path.join(root, sid, 'meta.json')
    if not os.path.exists(mp):
        continue
    m = json.load(open(mp))
    d = det.get(sid, {})
    verdict = d.get('verdict', 'not run') if isinstance(d, dict) else str(d)
    prop = re.match(r'C\d+', sid).group(0)
    ob = ''
    for p, v in (d.get('checks') or {}).items():
        for ln in v.get('lines', []):
            if 'failed obligation' in ln:
                ob = ln.split('failed obligation:')[1].strip()[:110]
                break
            if ln.startswith('INCONCLUSIVE') and not ob:
                ob = ln[:110]
    claimed = prop in claims['claimed']
    rows.append((sid, prop, claimed, verdict, ob, (m.get('summary') or '')[:160].replace('\n', ' ').replace('|', '/')))
with open(os.path.join(root, 'README.md'), 'w') as fh:
    fh.write('# Seeded changes\n\nWritten by independent sub-agents (property text + scratch worktree only), confirmed by `tools/confirm_seed.sh`,\n'
             'run by `tools/run_seeds.sh` (quick check of the seed\'s property on a scratch worktree of /repo HEAD with the patch applied).\n\n'
             '| seed | property | claimed | verdict of the check | first failed obligation / reason | change |\n|---|---|---|---|---|---|\n')
    for r in rows:
        fh.write('| %s | %s | %s | %s | %s | %s |\n' % (r[0], r[1], 'yes' if r[2] else 'not applicable', r[3], r[4].replace('|', '/'), r[5]))
cl = [r for r in rows if r[2]]
caught = [r for r in cl if r[3] == 'caught']
missed = [r for r in cl if r[3] == 'missed']
inc = [r for r in cl if r[3].startswith('inconclusive')]
gone = [r for r in cl if r[3].startswith('patch no longer')]
print('%d stored; %d belong to claimed properties: %d caught, %d missed (%s), %d inconclusive (%s), %d no longer apply; %d belong to properties that are not applicable (%s).'
      % (len(rows), len(cl), len(caught), len(missed), ', '.join(r[0] for r in missed), len(inc), ', '.join(r[0] for r in inc), len(gone),
         len(rows) - len(cl), ', '.join(r[0] for r in rows if not r[2])))
