#!/bin/bash
# try_seed.sh <mutation-dir> <prop> [<prop>...] : apply the patch to /repo, run the checks, undo.
M=$1; shift
cd /repo || exit 1
if ! git diff --quiet; then echo "/repo has uncommitted changes"; exit 1; fi
if ! git apply --check $M/patch.diff; then echo "PATCH DOES NOT APPLY"; exit 1; fi
git apply $M/patch.diff
cd /verif
export VERIF_EVIDENCE_DIR=/tmp/verif-seed-evidence; mkdir -p $VERIF_EVIDENCE_DIR
for p in "$@"; do ./vcheck run $p 2>&1 | grep -E "^(VIOLATION|OK|INCONCLUSIVE|KNOWN|  failed)" | head -8; echo "  -> rc=${PIPESTATUS[0]} ($p)"; done
git -C /repo checkout -- .
