#!/bin/bash
# confirm_seed.sh <out-dir-of-one-mutation> : confirm in a scratch worktree of /repo HEAD that
#  (1) the demo passes without the patch, (2) fails with it, (3) the existing suite still passes with it.
# Results appended to /tmp/seedconfirm/results.txt
set -u
M=$1
WT=/tmp/seedconfirm/wt
mkdir -p /tmp/seedconfirm
if [ ! -d $WT ]; then git -C /repo worktree add --detach $WT HEAD -q; fi
cd $WT
git checkout -q --detach $(git -C /repo rev-parse HEAD) 2>/dev/null
git checkout -q -- . ; git clean -fdq -e target
export CARGO_TARGET_DIR=/tmp/seedconfirm/target CARGO_NET_OFFLINE=true TMPDIR=/tmp/seedconfirm/tmp
mkdir -p $TMPDIR
name=$(echo $M | sed 's|/tmp/seed/||; s|-out/|_|; s|/$||')
cp $M/demo.rs tests/seed_demo.rs
r1=$(cargo test --offline --test seed_demo 2>&1 | grep -E "^test result|error(\[|:)" | head -3 | tr '\n' ' ')
if ! git apply --check $M/patch.diff 2>/dev/null; then echo "$name APPLY-FAILED" >> /tmp/seedconfirm/results.txt; git checkout -q -- .; rm -f tests/seed_demo.rs; exit 0; fi
git apply $M/patch.diff
r2=$(cargo test --offline --test seed_demo 2>&1 | grep -E "^test result|error(\[|:)" | head -3 | tr '\n' ' ')
rm -f tests/seed_demo.rs
r3=$(cargo test --workspace --no-fail-fast --offline 2>&1 | grep -E "^test result" | awk '{p+=$4; f+=$6} END {print p" passed "f" failed"}')
git checkout -q -- . ; git clean -fdq -e target
echo "$name | without: $r1 | with: $r2 | suite-with-patch: $r3" >> /tmp/seedconfirm/results.txt
