#!/bin/bash
# stability.sh [seeds...] : re-verify every generated Verus unit file of the clean tree under other SMT random seeds;
# a function that fails for some seed has an unstable proof (it can turn into a false alarm after an unrelated edit).
cd /verif/build || exit 1
seeds=${@:-"1 2 3 4 5"}
for sd in $seeds; do
  ls *.rs | grep -v "__probe" | xargs -P 8 -I{} sh -c 'out=$(verus {} --rlimit 50 --triggers-mode silent --smt-option smt.random_seed='$sd' 2>&1 | grep -E "^error|verification results" | head -4 | tr "\n" " "); case "$out" in *" 0 errors"*) ;; *) echo "seed '$sd' {}: $out";; esac'
done
