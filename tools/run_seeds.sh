#!/bin/bash
# run_seeds.sh [ids...] : apply each stored seeded mutation to /repo, run the check of its property (+C12/C14 when relevant), undo; write seeded/detection.json
cd /verif
# work on a scratch copy of /repo HEAD so that this can run while /repo is in use
SCR=/tmp/verif-seedrun; rm -rf $SCR; mkdir -p $SCR; git -C /repo worktree prune; git -C /repo worktree add --detach $SCR/repo HEAD -q || exit 1
export VERIF_REPO=$SCR/repo
export VERIF_EVIDENCE_DIR=/tmp/verif-seed-evidence; mkdir -p $VERIF_EVIDENCE_DIR
python3 - "$@" <<'PY'
import json, os, subprocess, sys, re
ids = sys.argv[1:] or sorted(os.listdir('/verif/seeded'))
detp = '/verif/seeded/detection.json'
det = json.load(open(detp)) if os.path.exists(detp) else {}
for sid in ids:
    d = os.path.join('/verif/seeded', sid)
    if not os.path.exists(os.path.join(d, 'patch.diff')):
        continue
    prop = re.match(r'C\d+', sid).group(0)
    if subprocess.run(['git', '-C', os.environ['VERIF_REPO'], 'diff', '--quiet']).returncode != 0:
        print('/repo dirty'); sys.exit(1)
    r = subprocess.run(['git', '-C', os.environ['VERIF_REPO'], 'apply', '--check', os.path.join(d, 'patch.diff')], capture_output=True, text=True)
    if r.returncode != 0:
        det[sid] = {'verdict': 'patch no longer applies to /repo HEAD (overlaps a fix: commit)', 'checks': {}}
        print(sid, det[sid]['verdict']); continue
    subprocess.run(['git', '-C', os.environ['VERIF_REPO'], 'apply', os.path.join(d, 'patch.diff')], check=True)
    try:
        res = {}
        for p in [prop]:
            rr = subprocess.run(['./vcheck', 'run', p], capture_output=True, text=True)
            lines = [l for l in rr.stdout.split('\n') if l.startswith(('VIOLATION', 'INCONCLUSIVE', 'OK', '  failed obligation'))]
            res[p] = {'rc': rr.returncode, 'lines': [l[:300] for l in lines[:6]]}
        verdict = 'caught' if any(v['rc'] == 1 for v in res.values()) else ('inconclusive (exit 2)' if any(v['rc'] == 2 for v in res.values()) else 'missed')
        det[sid] = {'verdict': verdict, 'checks': res}
        print(sid, verdict)
    finally:
        subprocess.run(['git', '-C', os.environ['VERIF_REPO'], 'checkout', '--', '.'], check=True)
    json.dump(det, open(detp, 'w'), indent=1)
PY
git -C /repo worktree remove --force $SCR/repo; rm -rf $SCR
