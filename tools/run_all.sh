#!/bin/bash
# run every claimed check on /repo as it is (quick tier) and validate manifest + evidence against the schemas
cd /verif
rc=0
for p in $(python3 -c "import json;print(' '.join(sorted(json.load(open('claims.json'))['claimed'])))"); do
  ./vcheck run $p --tier ${1:-quick} || rc=1
done
python3-vt - <<'PY'
import json, jsonschema, glob
jsonschema.validate(json.load(open('MANIFEST.json')), json.load(open('/root/.vp/MANIFEST.schema.json')))
for f in sorted(glob.glob('evidence/*.json')):
    e = json.load(open(f))
    jsonschema.validate(e, json.load(open('/root/.vp/EVIDENCE.schema.json')))
    c = e['coverage']
    assert e['level'] != 'proof' or c['obligations'] == c['discharged'], (f, c['obligations'], c['discharged'])
print('manifest and %d evidence files valid' % len(glob.glob('evidence/*.json')))
PY
exit $rc
