#!/usr/bin/env python3
"""Copy confirmed seeded mutations from /tmp/seed/*-out into /verif/seeded/<id>/ with meta.json
(which property, what it needs to manifest, what was run to confirm it, which check catches it)."""
import json, os, re, shutil, sys
RES = '/tmp/seedconfirm/results.txt'
DET = '/verif/seeded/detection.json'   # filled by tools/run_seeds.sh
conf = {}
if os.path.exists(RES):
    for ln in open(RES):
        name = ln.split('|')[0].strip()
        conf[name] = ln.strip()
det = json.load(open(DET)) if os.path.exists(DET) else {}
os.makedirs('/verif/seeded', exist_ok=True)
for d in sorted(os.listdir('/tmp/seed')):
    m = re.match(r'(C\d+)([b-z]?)-out$', d)
    if not m:
        continue
    for sub in sorted(os.listdir(os.path.join('/tmp/seed', d))):
        src = os.path.join('/tmp/seed', d, sub)
        if not os.path.exists(os.path.join(src, 'patch.diff')):
            continue
        sid = '%s%s_%s' % (m.group(1), m.group(2), sub)
        c = conf.get(sid)
        if not c or 'APPLY-FAILED' in c:
            continue
        ok_without = 'without: test result: ok' in c
        fails_with = 'with: test result: FAILED' in c or ('with:' in c and 'error' in c.split('with:')[1].split('|')[0])
        suite = c.split('suite-with-patch:')[1].strip() if 'suite-with-patch:' in c else ''
        if not (ok_without and fails_with and suite.endswith('0 failed')):
            print('NOT CONFIRMED', sid, c[:200])
            continue
        dst = os.path.join('/verif/seeded', sid)
        os.makedirs(dst, exist_ok=True)
        shutil.copy(os.path.join(src, 'patch.diff'), dst)
        shutil.copy(os.path.join(src, 'demo.rs'), dst)
        try:
            meta = json.load(open(os.path.join(src, 'meta.json')))
        except Exception:
            meta = {}
        out = {'id': sid, 'property': m.group(1), 'summary': meta.get('summary'), 'needs_to_manifest': meta.get('needs_to_manifest'),
               'author': 'independent sub-agent given only the property text and a scratch worktree',
               'confirmed_by_me': {'how': 'tools/confirm_seed.sh in a scratch worktree of /repo HEAD: demo without patch, demo with patch, full suite with patch',
                                   'demo_without_patch': 'passes', 'demo_with_patch': 'fails', 'suite_with_patch': suite},
               'detection': det.get(sid, 'not yet run')}
        json.dump(out, open(os.path.join(dst, 'meta.json'), 'w'), indent=1)
        print('stored', sid, '|', out['detection'] if isinstance(out['detection'], str) else out['detection'].get('verdict'))
