"""Kani units (DESIGN.md 3.5): contract harnesses appended (add-only, #[cfg(kani)]) to a scratch copy of the
working tree and run with `cargo kani`.  Loop-free harnesses over full-domain symbolic inputs are complete
proofs; harnesses with an unwind bound are *bounded stand-ins* and are never counted as proved.

A unit is a file kani/<unit>.rs:

    //@ inject src/dict/rear_coded_list.rs        (module file the harness module is appended to)
    //@ harness rcl_int_roundtrip props=C09 [bounded="lists of length <= 2"] [timeout=300]
    //@ fn <name of function under contract> ...   (informational: functions_under_contract)
    #[cfg(kani)]
    mod verif_kani_... { use super::*; #[kani::proof] fn rcl_int_roundtrip() { .. } }
"""
import json
import hashlib
import os
import re
import shutil
import subprocess
import tempfile
import time

from . import run as R

ROOT = R.ROOT
KDIR = os.path.join(ROOT, 'kani')
KTARGET = os.path.join(R.CACHE, 'kani-target' + ('' if os.path.abspath(R.REPO) == '/repo' else '-alt'))
KCACHE = os.path.join(R.CACHE, 'kani-results')


class KaniUnit:
    def __init__(self, name):
        self.name = name
        self.path = os.path.join(KDIR, name.replace('k.', '') + '.rs')
        self.inject = None
        self.harnesses = []     # dicts: name, props, bounded, timeout
        self.fns = []
        self.assumes = []
        self.text = ''
        body = []
        for ln in open(self.path).read().split('\n'):
            s = ln.strip()
            if s.startswith('//@'):
                d = s[3:].strip()
                w, _, arg = d.partition(' ')
                if w == 'inject':
                    self.inject = arg.strip()
                elif w == 'harness':
                    m = re.match(r'(\w+)(.*)$', arg.strip())
                    h = {'name': m.group(1), 'props': [], 'bounded': None, 'timeout': 600, 'expect': 'pass'}
                    for k, v in re.findall(r'(\w+)=("[^"]*"|\S+)', m.group(2)):
                        v = v.strip('"')
                        if k == 'props':
                            h['props'] = v.split(',')
                        elif k == 'bounded':
                            h['bounded'] = v
                        elif k == 'timeout':
                            h['timeout'] = int(v)
                    self.harnesses.append(h)
                elif w == 'fn':
                    self.fns.append(arg.strip())
                elif w == 'assume':
                    self.assumes.append(arg.strip())
            else:
                body.append(ln)
        self.text = '\n'.join(body)
        self.props = set(p for h in self.harnesses for p in h['props'])


def _scratch(units):
    """copy the working tree (without target/.git) and append every unit's harness module"""
    d = tempfile.mkdtemp(prefix='vcheck-kani-')
    repo = os.path.join(d, 'repo')
    subprocess.run(['rsync', '-a', '--exclude', 'target', '--exclude', '.git', R.REPO + '/', repo + '/'], check=True)
    for u in units:
        f = os.path.join(repo, u.inject)
        if not os.path.exists(f):
            raise R.Inconclusive('kani unit %s: file %s not found' % (u.name, u.inject))
        with open(f, 'a') as fh:
            fh.write('\n\n// ---- appended by /verif (add-only, cfg(kani)) ----\n' + u.text + '\n')
    return d, repo


def _run_cargo_kani(repo, harness_names, timeout):
    env = dict(os.environ)
    env['CARGO_NET_OFFLINE'] = 'true'
    env['CARGO_TARGET_DIR'] = KTARGET
    cmd = ['cargo', 'kani', '--lib', '-Z', 'function-contracts', '-Z', 'stubbing', '--output-format', 'terse']
    for h in harness_names:
        cmd += ['--harness', h]
    if len(harness_names) > 1:
        cmd += ['-j', str(min(8, len(harness_names)))]
    t = time.time()
    try:
        r = subprocess.run(cmd, cwd=repo, stdout=subprocess.PIPE, stderr=subprocess.STDOUT, text=True, timeout=timeout, env=env)
        out, rc, to = r.stdout, r.returncode, False
    except subprocess.TimeoutExpired as e:
        out = e.stdout.decode(errors='replace') if isinstance(e.stdout, bytes) else (e.stdout or '')
        rc, to = -9, True
    return ' '.join(cmd), rc, out, to, time.time() - t


def _parse(out, names):
    """per-harness verdicts from cargo kani's terse output (also in -j mode, where result blocks follow a `Thread k:` line)"""
    def blank():
        return {'status': None, 'checks': 0, 'failed_checks': [], 'time_s': 0.0}
    res = {n: blank() for n in names}
    thread_h = {}
    cur = None
    for ln in out.split('\n'):
        m = re.match(r'\s*Thread (\d+):\s*(.*)$', ln)
        tid = None
        if m:
            tid, ln = m.group(1), m.group(2)
        m = re.search(r'Checking harness ([\w:]+)', ln)
        if m:
            h = m.group(1).split('::')[-1].rstrip('.')
            res.setdefault(h, blank())
            if tid is not None:
                thread_h[tid] = h
            cur = h
            continue
        if tid is not None:
            cur = thread_h.get(tid, cur)
        m = re.search(r'Verification (succeeded|failed) for - ([\w:]+)', ln)
        if m:
            n = m.group(2).split('::')[-1]
            res.setdefault(n, blank())
            if res[n]['status'] is None:
                res[n]['status'] = 'pass' if m.group(1) == 'succeeded' else 'fail'
            continue
        if cur is None:
            continue
        m = re.search(r'\*\* (\d+) of (\d+) failed', ln)
        if m:
            res[cur]['checks'] = int(m.group(2))
        m = re.match(r'\s*Failed Checks: (.*)$', ln)
        if m:
            res[cur]['failed_checks'].append(m.group(1).strip()[:300])
        if 'VERIFICATION:- SUCCESSFUL' in ln:
            res[cur]['status'] = 'pass'
        elif 'VERIFICATION:- FAILED' in ln:
            res[cur]['status'] = 'fail'
        m = re.search(r'(\d+) of (\d+) cover properties satisfied', ln)
        if m:
            res[cur]['covers'] = [int(m.group(1)), int(m.group(2))]
        m = re.search(r'Verification Time: ([\d.]+)s', ln)
        if m:
            res[cur]['time_s'] = float(m.group(1))
    return res


def _tree_key(units, harnesses):
    h = hashlib.sha256()
    h.update(R.tree_hash().encode())
    for u in units:
        h.update(open(u.path, 'rb').read())
    h.update(','.join(sorted(harnesses)).encode())
    return h.hexdigest()[:24]


def run_units(unit_dicts, tup, pid=None):
    """returns a list of UnitResult (one per unit)"""
    units = [KaniUnit(u['name']) for u in unit_dicts]
    results = []
    wanted = []
    for u in units:
        for h in u.harnesses:
            if pid is None or pid in h['props'] or pid == 'C12':
                wanted.append((u, h))
    names = [h['name'] for _, h in wanted]
    if not names:
        return []
    os.makedirs(KCACHE, exist_ok=True)
    key = _tree_key(units, names)
    cp = os.path.join(KCACHE, key + '.json')
    cached = None
    if os.path.exists(cp) and not os.environ.get('VERIF_NO_CACHE'):
        try:
            cached = json.load(open(cp))
        except Exception:
            cached = None
    t0 = time.time()
    if cached is None:
        try:
            d, repo = _scratch(units)
        except R.Inconclusive as e:
            for u in units:
                r = R.UnitResult(u.name)
                r.backend = 'kani'
                r.status = 'inconclusive'
                r.reason = str(e)
                results.append(r)
            return results
        try:
            timeout = max(h['timeout'] for _, h in wanted) + 420
            cmd, rc, out, to, wall = _run_cargo_kani(repo, names, timeout)
        finally:
            shutil.rmtree(d, ignore_errors=True)
        parsed = _parse(out, names)
        cached = {'cmd': cmd, 'rc': rc, 'timed_out': to, 'wall_s': round(wall, 1), 'parsed': parsed, 'tail': out[-6000:]}
        if not to:
            with open(cp, 'w') as fh:
                json.dump(cached, fh)
        cached['cached'] = False
    else:
        cached['cached'] = True
    parsed = cached['parsed']
    for u in units:
        r = R.UnitResult(u.name)
        r.backend = 'kani'
        r.verus = {'cmd': cached['cmd'], 'rc': cached['rc'], 'timed_out': cached['timed_out'], 'wall_s': cached['wall_s'], 'cached': cached['cached']}
        r.assumption_notes = u.assumes
        r.file = u.path
        r.scan = {'kani::assume': len(re.findall(r'kani::assume', u.text)), 'kani::stub': len(re.findall(r'kani::stub', u.text))}
        hs = [h for (uu, h) in wanted if uu is u]
        r.harnesses = len(hs)
        bounded_all = all(h['bounded'] for h in hs) if hs else False
        r.bounded = bounded_all
        r.bound = '; '.join('%s: %s' % (h['name'], h['bounded']) for h in hs if h['bounded']) or None
        status = 'ok'
        for h in hs:
            p = parsed.get(h['name'], {})
            st = p.get('status')
            ob = {'unit': u.name, 'fn': h['name'], 'kind': 'kani-harness' + ('(bounded)' if h['bounded'] else ''),
                  'text': 'CBMC: all %d checks of harness %s%s' % (p.get('checks', 0), h['name'], (' [bound: %s]' % h['bounded']) if h['bounded'] else ''),
                  'props': h['props'], 'origin': 'kani/%s' % os.path.basename(u.path), 'bounded': bool(h['bounded'])}
            r.obligations.append(ob)
            r.solver_s = getattr(r, 'solver_s', 0.0) + p.get('time_s', 0.0)
            r.checks = getattr(r, 'checks', 0) + p.get('checks', 0)
            cv = p.get('covers')
            r.probes = r.probes or {'expected': 0, 'failed_as_expected': 0, 'vacuous': []}
            if cv:
                r.probes['expected'] += cv[1]
                r.probes['failed_as_expected'] += cv[0]
                if cv[0] != cv[1]:
                    r.probes['vacuous'].append('%s: cover unsatisfied' % h['name'])
            if st == 'pass':
                continue
            if st == 'fail':
                status = 'failed'
                fc = '; '.join(p.get('failed_checks', [])[:4]) or 'see output'
                r.failed.append({'name': '%s::%s::kani[%s]' % (u.name, h['name'], fc[:200]), 'unit': u.name, 'fn': h['name'], 'kind': 'kani',
                                 'clause': None, 'site': fc, 'site_line': None, 'lib_site': None, 'props': h['props'],
                                 'message': 'CBMC reports failed checks: ' + fc, 'rendered': cached['tail'][-3000:]})
            else:
                if status != 'failed':
                    status = 'inconclusive'
                r.reason = 'harness %s: no verdict (timeout / tool failure): %s' % (h['name'], cached['tail'][-300:].replace('\n', ' '))
        r.status = status
        r.verified_fns = sum(1 for h in hs if parsed.get(h['name'], {}).get('status') == 'pass')
        r.fn_info = [{'name': f, 'key': f, 'expanded_line': None, 'props': sorted(u.props), 'vc': 'kani/%s' % os.path.basename(u.path)} for f in u.fns]
        r.wall_s = round(time.time() - t0, 1)
        results.append(r)
    return results


def run_unit(unit_dict, tup):
    return run_units([unit_dict], tup)[0]


def warm():
    from . import registry
    units = [u for u in registry.UNITS if u['backend'] == 'kani']
    if units:
        tup = R.expanded()
        for r in run_units(units, tup):
            print('setup: kani unit %-24s %s %s' % (r.name, r.status, r.reason[:100]))
