"""Which units exist, which back end runs them, and what each property claims."""

# name -> dict(backend='verus'|'kani', tier='quick'|'thorough', params=None|dict)
UNITS = [
    {'name': 'bitvec.core', 'backend': 'verus', 'tier': 'quick'},
    {'name': 'bitvec.iter', 'backend': 'verus', 'tier': 'quick'},
    {'name': 'bitvec.hinted', 'backend': 'verus', 'tier': 'quick'},
    {'name': 'select.phase1', 'backend': 'verus', 'tier': 'quick'},
    {'name': 'select.map', 'backend': 'verus', 'tier': 'quick', 'c12': False},
    {'name': 'rank9', 'backend': 'verus', 'tier': 'quick'},
    {'name': 'rank_small@2_9', 'backend': 'verus', 'tier': 'quick'},
    {'name': 'rank_small@1_9', 'backend': 'verus', 'tier': 'quick'},
    {'name': 'rank_small@1_10', 'backend': 'verus', 'tier': 'quick'},
    {'name': 'rank_small@1_11', 'backend': 'verus', 'tier': 'quick'},
    {'name': 'rank_small@3_13', 'backend': 'verus', 'tier': 'quick'},
    {'name': 'shard_edge', 'backend': 'verus', 'tier': 'quick'},
    {'name': 'vfunc.get', 'backend': 'verus', 'tier': 'quick'},
    {'name': 'vfilter.consistency@u64', 'backend': 'verus', 'tier': 'quick', 'c12': False},
    {'name': 'vfilter.consistency@usize', 'backend': 'verus', 'tier': 'quick', 'c12': False},
    {'name': 'vfilter.consistency@u8', 'backend': 'verus', 'tier': 'quick', 'c12': False},
    {'name': 'vfilter.consistency@u16', 'backend': 'verus', 'tier': 'quick', 'c12': False},
    {'name': 'vfilter.consistency@u32', 'backend': 'verus', 'tier': 'quick', 'c12': False},
    {'name': 'ef.builder', 'backend': 'verus', 'tier': 'quick'},
    {'name': 'ef.guards', 'backend': 'verus', 'tier': 'quick'},
    {'name': 'ef.scan', 'backend': 'verus', 'tier': 'quick'},
    {'name': 'rcl.str', 'backend': 'verus', 'tier': 'quick'},
    {'name': 'rcl.build', 'backend': 'verus', 'tier': 'quick'},
    {'name': 'rcl.decode', 'backend': 'verus', 'tier': 'quick'},
    {'name': 'k.rcl_int', 'backend': 'kani', 'tier': 'quick', 'props': ['C09', 'C12']},
    {'name': 'k.rank_small_counters', 'backend': 'kani', 'tier': 'quick', 'props': ['C01', 'C12']},
    {'name': 'k.bfv_unaligned', 'backend': 'kani', 'tier': 'quick', 'props': ['C10', 'C12']},
    {'name': 'k.bfv_apply', 'backend': 'kani', 'tier': 'quick', 'props': ['C10', 'C14', 'C12']},
    {'name': 'k.atomic', 'backend': 'kani', 'tier': 'quick', 'props': ['C05', 'C14', 'C12']},
    {'name': 'k.sig_high_bits', 'backend': 'kani', 'tier': 'quick', 'props': ['C16']},
    {'name': 'k.setup_graphs', 'backend': 'kani', 'tier': 'quick', 'props': ['C16']},
    {'name': 'k.mod2', 'backend': 'kani', 'tier': 'thorough', 'props': ['C12']},
    {'name': 'lenders.rewind', 'backend': 'verus', 'tier': 'quick', 'c12': False},
    {'name': 'lenders.next', 'backend': 'verus', 'tier': 'quick', 'c12': False},
    {'name': 'lenders.take', 'backend': 'verus', 'tier': 'quick', 'c12': False},
    {'name': 'bfv.core@u64', 'backend': 'verus', 'tier': 'quick'},
    {'name': 'bfv.core@usize', 'backend': 'verus', 'tier': 'quick'},
    {'name': 'bfv.core@u8', 'backend': 'verus', 'tier': 'quick'},
    {'name': 'bfv.core@u16', 'backend': 'verus', 'tier': 'quick'},
    {'name': 'bfv.core@u32', 'backend': 'verus', 'tier': 'quick'},
    {'name': 'bfv.core@u128', 'backend': 'verus', 'tier': 'quick'},
    {'name': 'bfv.iter@u64', 'backend': 'verus', 'tier': 'quick'},
    {'name': 'bfv.iter@usize', 'backend': 'verus', 'tier': 'quick'},
    {'name': 'bfv.iter@u8', 'backend': 'verus', 'tier': 'quick'},
    {'name': 'bfv.iter@u16', 'backend': 'verus', 'tier': 'quick'},
    {'name': 'bfv.iter@u32', 'backend': 'verus', 'tier': 'quick'},
    {'name': 'bfv.iter@u128', 'backend': 'verus', 'tier': 'quick'},
    {'name': 'bfv.eq@u64', 'backend': 'verus', 'tier': 'quick'},
    {'name': 'bfv.eq@usize', 'backend': 'verus', 'tier': 'quick'},
    {'name': 'bfv.eq@u8', 'backend': 'verus', 'tier': 'quick'},
    {'name': 'bfv.eq@u16', 'backend': 'verus', 'tier': 'quick'},
    {'name': 'bfv.eq@u32', 'backend': 'verus', 'tier': 'quick'},
    {'name': 'bfv.eq@u128', 'backend': 'verus', 'tier': 'quick'},
    {'name': 'bfv.copy@u64', 'backend': 'verus', 'tier': 'quick'},
    {'name': 'bfv.copy@usize', 'backend': 'verus', 'tier': 'quick'},
    {'name': 'bfv.copy@u8', 'backend': 'verus', 'tier': 'quick'},
    {'name': 'bfv.copy@u16', 'backend': 'verus', 'tier': 'quick'},
    {'name': 'bfv.copy@u32', 'backend': 'verus', 'tier': 'quick'},
]

TRUSTED_BASE = [
    'Verus 0.2026.09.13 (rust_verify, VIR/AIR encoding), Z3 as shipped with Verus',
    'vstd library specifications for Vec/slice/Option/Seq (A6)',
    "rustc nightly's -Zunpretty=expanded pretty-printer: the extraction source is the compiler's own macro-expanded view of the working tree",
    'the extractor of /verif/vc (locates functions by key, applies rewrite rules R1-R10 of DESIGN.md 3.2; it contains no function bodies)',
    'machine model: usize = 64 bit (global size_of usize == 8), little-endian (A7)',
]

GLOBAL_ASSUMPTIONS = [
    'A1: std integer methods (count_ones, trailing_zeros, leading_zeros, div_ceil, ilog2, ...) satisfy the assume_specification given in contracts/spec_*.vc',
    'A3: proofs are for the backend B = Vec<W>; other backends are covered only because every access goes through AsRef<[W]>/AsMut<[W]>',
    'R4: panic message formatting is dropped; a call of a core panicking entry point is modelled as a function that never returns',
    "R4': debug_assert!(c) is checked as assert(c) (stronger than the release build, equal to the test profile)",
    'functions not listed under functions_under_contract are invisible to this check',
]

# property id -> claim description (used for MANIFEST.json and evidence)
PROPS = {}

NOT_APPLICABLE = {}
