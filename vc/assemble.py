"""Assemble a Verus file from a contract sidecar (contracts/<unit>.vc) and function
text located in rustc's expanded output.  See DESIGN.md section 3.3 for the directive
language.  The sidecar never contains a function body of the repository.
"""
import os
import re
from .rsparse import blank_noncode, match_close, norm_ws, header_matches
from . import rewrite as rw

CONTRACTS = os.path.join(os.path.dirname(os.path.dirname(os.path.abspath(__file__))), 'contracts')


class ExtractError(Exception):
    """the unit cannot be assembled from the current tree (lost anchor, unsupported construct):
    inconclusive, never a violation"""


class Line:
    __slots__ = ('text', 'kind', 'fn', 'ofile', 'oline', 'props', 'clause')

    def __init__(self, text, kind, fn=None, ofile=None, oline=None, props=None, clause=None):
        self.text = text
        self.kind = kind      # 'lib' | 'src' | 'spec' | 'proof' | 'probe' | 'gen'
        self.fn = fn          # name of the extracted fn this line belongs to (display name)
        self.ofile = ofile
        self.oline = oline
        self.props = props
        self.clause = clause


class FnSpec:
    def __init__(self):
        self.module = self.header = self.name = None
        self.as_name = None
        self.label = None
        self.props = []
        self.fsubst = []
        self.ret = 'r'
        self.panic_frame = False
        self.optional = False
        self.no_panic = False
        self.spec = []          # [(text, vcfile, vcline)]
        self.loops = {}         # ordinal -> [(text, vcfile, vcline)]
        self.ats = []           # [(anchor, [(text, vcfile, vcline)])]
        self.no_end_probe = False
        self.vcfile = None
        self.vcline = None
        self.keep_generics = False
        self.vis = None
        self.attrs = []       # `//@ attr <text>`: attribute lines put before the function (e.g. no termination claim for a retry loop)
        self.truncate_after = None
        self.tail_expr = None
        self.skip_before = None   # `//@ skip_before /re/` (rule R13, suffix extraction): the body before the first match is dropped

    def display(self):
        return self.label or self.as_name or self.name


def _parse_subst(arg, where):
    if '=>' not in arg:
        raise ExtractError('bad subst at %s: %s' % (where, arg))
    a, b = arg.split('=>', 1)
    a = a.strip()
    b = b.strip()
    if a.startswith('/') and a.endswith('/'):
        a = a[1:-1]
    else:
        a = re.escape(a)
        # literal patterns: be tolerant to rustc's line wrapping
        a = a.replace(r'\ ', r'\s+')
    if b == '<empty>':
        b = ''
    return (a, b)


WORDS = {
    'u8': {'W': 'u8', 'BITS': '8', 'BYTES': '1', 'LOG': '3'},
    'u16': {'W': 'u16', 'BITS': '16', 'BYTES': '2', 'LOG': '4'},
    'u32': {'W': 'u32', 'BITS': '32', 'BYTES': '4', 'LOG': '5'},
    'u64': {'W': 'u64', 'BITS': '64', 'BYTES': '8', 'LOG': '6'},
    'u128': {'W': 'u128', 'BITS': '128', 'BYTES': '16', 'LOG': '7'},
    'usize': {'W': 'usize', 'BITS': '64', 'BYTES': '8', 'LOG': '6'},
}


PARAMSETS = {
    # RankSmall<NUM_U32S, COUNTER_WIDTH>: words per block, words per sub-block, sub-blocks per block
    '2_9': {'BBS': '512', 'BPS': '8388608', 'N': '2', 'CW': '9', 'WPB': '8', 'WPS': '1', 'NSUB': '8'},
    '1_9': {'SUB2': '256', 'SUB3': '384', 'ONESL': '0x40201', 'MSBSL': '0x4020100', 'FMASK': '0x1FF', 'SUBBITS': '128', 'BBS': '512', 'BPS': '8388608', 'N': '1', 'CW': '9', 'WPB': '8', 'WPS': '2', 'NSUB': '4'},
    '1_10': {'SUB2': '512', 'SUB3': '768', 'ONESL': '0x100401', 'MSBSL': '0x20080200', 'FMASK': '0x3FF', 'SUBBITS': '256', 'BBS': '1024', 'BPS': '4194304', 'N': '1', 'CW': '10', 'WPB': '16', 'WPS': '4', 'NSUB': '4'},
    '1_11': {'SUB2': '1024', 'SUB3': '1536', 'ONESL': '0x400801', 'MSBSL': '0x100200400', 'FMASK': '0x7FF', 'SUBBITS': '512', 'BBS': '2048', 'BPS': '2097152', 'N': '1', 'CW': '11', 'WPB': '32', 'WPS': '8', 'NSUB': '4'},
    '3_13': {'BBS': '8192', 'BPS': '524288', 'N': '3', 'CW': '13', 'WPB': '128', 'WPS': '16', 'NSUB': '8'},
    # the four adaptive selection structures share one look-up (unit select.lookup)
    'adapt': {'P_EXPECT': r'/fn log2_ones_per_sub32/', 'P_STRUCT': 'SelectAdapt', 'P_MODULE': 'select_adapt', 'P_FN': 'select_unchecked', 'P_HINTED': 'select_hinted',
              'P2_FN': 'rank_sel::select_adapt | impl<B: AsRef<[usize]> + BitCount> SelectAdapt<B, Box<[usize]>> | _new', 'P2_LABEL': 'SelectAdapt::_new (second phase)',
              'P2_DIRS': '    //@ fsubst /fn _new\\(bits: B, num_ones: usize, log2_ones_per_inventory: usize,\\s*max_log2_u64_per_subinventory: usize\\)/ => fn _new(bits: BitVec, num_ones: usize, log2_ones_per_inventory: usize, max_log2_u64_per_subinventory: usize, log2_u64_per_subinventory: usize, log2_ones_per_sub16: usize, ones_per_inventory: usize, ones_per_inventory_mask: usize, ones_per_sub16_mask: usize, u64_per_subinventory: usize, u64_per_inventory: usize, inventory_size: usize, inventory0: Vec<usize>, mut spilled: usize)\n    //@ fsubst /<B: AsRef<\\[usize\\]> \\+ BitCount>/ => <empty>',
              'P2_REQ': 'phase1_post(bits, num_ones, log2_ones_per_inventory, max_log2_u64_per_subinventory, inventory0@, log2_u64_per_subinventory, log2_ones_per_sub16, ones_per_inventory, ones_per_inventory_mask, ones_per_sub16_mask, u64_per_subinventory, u64_per_inventory, inventory_size),',
              'P2_MVAR': 'log2_u64_per_subinventory', 'P2_START': '', 'P2_INV': 'true,',
              'P2_MK': 'SelectAdapt { bits, inventory: inv, spill: sp, log2_ones_per_inventory: l, log2_ones_per_sub16: s16, log2_u64_per_subinventory: m, ones_per_inventory_mask: k1, ones_per_sub16_mask: k2 }',
              'P_RK': 'rank_spec(bits, p)', 'P_BIT': 'bit_at(bits, p)', 'P_GEN': '', 'P_TARGS': '',
              'P_L': 'self.log2_ones_per_inventory', 'P_M': 'self.log2_u64_per_subinventory', 'P_S16': 'self.log2_ones_per_sub16',
              'P_MASKS': 'self.ones_per_inventory_mask == (1usize << self.log2_ones_per_inventory) - 1 && self.ones_per_sub16_mask == (1usize << self.log2_ones_per_sub16) - 1',
              'P_HDR': r'/SelectUnchecked for SelectAdapt<B, I>/',
              'P_HDR32': 'impl<B, I> SelectAdapt<B, I>', 'P_S32REQ': 'true', 'P_S32ARGS': 'span, log2_ones_per_sub16', 'P_S32S16': 'log2_ones_per_sub16'},
    'zero_adapt': {'P_EXPECT': r'/fn log2_ones_per_sub32/', 'P_STRUCT': 'SelectZeroAdapt', 'P_MODULE': 'select_zero_adapt', 'P_FN': 'select_zero_unchecked', 'P_HINTED': 'select_zero_hinted',
              'P_RK': 'p - rank_spec(bits, p)', 'P_BIT': '!bit_at(bits, p)', 'P_GEN': '', 'P_TARGS': '',
              'P_L': 'self.log2_ones_per_inventory', 'P_M': 'self.log2_u64_per_subinventory', 'P_S16': 'self.log2_ones_per_sub16',
              'P_MASKS': 'self.ones_per_inventory_mask == (1usize << self.log2_ones_per_inventory) - 1 && self.ones_per_sub16_mask == (1usize << self.log2_ones_per_sub16) - 1',
              'P_HDR': r'/SelectZeroUnchecked for SelectZeroAdapt<B, I>/',
              'P_HDR32': 'impl<B, I> SelectZeroAdapt<B, I>', 'P_S32REQ': 'true', 'P_S32ARGS': 'span, log2_ones_per_sub16', 'P_S32S16': 'log2_ones_per_sub16'},
    'adapt_const': {'P_EXPECT': r'/const LOG2_ONES_PER_SUB16: usize =\s*LOG2_ONES_PER_INVENTORY\.saturating_sub\(LOG2_U64_PER_SUBINVENTORY\s*\+ 2\);\s*const ONES_PER_SUB16_MASK: usize =\s*\(1 << Self::LOG2_ONES_PER_SUB16\) - 1;\s*const ONES_PER_INVENTORY: usize = \(1 << LOG2_ONES_PER_INVENTORY\);\s*const ONES_PER_INVENTORY_MASK: usize =\s*\(1 << LOG2_ONES_PER_INVENTORY\) - 1;/', 'P_STRUCT': 'SelectAdaptConst', 'P_MODULE': 'select_adapt_const', 'P_FN': 'select_unchecked', 'P_HINTED': 'select_hinted',
              'P2_FN': 'rank_sel::select_adapt_const | /SelectAdaptConst<B, Box<\\[usize\\]>, LOG2_ONES_PER_INVENTORY/ | new', 'P2_LABEL': 'SelectAdaptConst::new (second phase)',
              'P2_DIRS': '    //@ fsubst /pub fn new\\(bits: B\\) -> Self/ => pub fn new(bits: BitVec, num_ones: usize, u64_per_subinventory: usize, u64_per_inventory: usize, inventory_size: usize, inventory0: Vec<usize>, mut spilled: usize) -> Self',
              'P2_REQ': 'phase1_post(bits, num_ones, LOG2_ONES_PER_INVENTORY, LOG2_U64_PER_SUBINVENTORY, inventory0@, LOG2_U64_PER_SUBINVENTORY, sat_sub(LOG2_ONES_PER_INVENTORY, (LOG2_U64_PER_SUBINVENTORY + 2) as usize), 1usize << LOG2_ONES_PER_INVENTORY, ((1usize << LOG2_ONES_PER_INVENTORY) - 1) as usize, ((1usize << sat_sub(LOG2_ONES_PER_INVENTORY, (LOG2_U64_PER_SUBINVENTORY + 2) as usize)) - 1) as usize, u64_per_subinventory, u64_per_inventory, inventory_size),',
              'P2_MVAR': 'LOG2_U64_PER_SUBINVENTORY', 'P2_INV': 'log2_ones_per_inventory == LOG2_ONES_PER_INVENTORY, log2_u64_per_subinventory == LOG2_U64_PER_SUBINVENTORY,',
              'P2_START': '        let log2_ones_per_inventory: usize = LOG2_ONES_PER_INVENTORY; let log2_u64_per_subinventory: usize = LOG2_U64_PER_SUBINVENTORY;\n        let log2_ones_per_sub16: usize = LOG2_ONES_PER_INVENTORY.saturating_sub(LOG2_U64_PER_SUBINVENTORY + 2);\n        let ones_per_inventory: usize = 1usize << LOG2_ONES_PER_INVENTORY;\n        let ghost ones_per_inventory_mask: usize = ((1usize << LOG2_ONES_PER_INVENTORY) - 1) as usize; let ghost ones_per_sub16_mask: usize = ((1usize << log2_ones_per_sub16) - 1) as usize;',
              'P2_MK': 'SelectAdaptConst { bits, inventory: inv, spill: sp }',
              'P_RK': 'rank_spec(bits, p)', 'P_BIT': 'bit_at(bits, p)',
              'P_GEN': '<const LOG2_ONES_PER_INVENTORY: usize, const LOG2_U64_PER_SUBINVENTORY: usize>', 'P_TARGS': ', LOG2_ONES_PER_INVENTORY, LOG2_U64_PER_SUBINVENTORY',
              'P_L': 'LOG2_ONES_PER_INVENTORY', 'P_M': 'LOG2_U64_PER_SUBINVENTORY', 'P_S16': 'sat_sub(LOG2_ONES_PER_INVENTORY, (LOG2_U64_PER_SUBINVENTORY + 2) as usize)',
              'P_MASKS': 'true',
              'P_HDR': r'/SelectUnchecked for SelectAdaptConst<B, I, LOG2_ONES_PER_INVENTORY, LOG2_U64_PER_SUBINVENTORY>/',
              'P_HDR32': r'/^impl<B, I, const LOG2_ONES_PER_INVENTORY ?: usize, const LOG2_U64_PER_SUBINVENTORY ?: usize> SelectAdaptConst<B, I,/', 'P_S32REQ': 'LOG2_U64_PER_SUBINVENTORY < 60', 'P_S32ARGS': 'span', 'P_S32S16': 'sat_sub(LOG2_ONES_PER_INVENTORY, (LOG2_U64_PER_SUBINVENTORY + 2) as usize)'},
    'zero_adapt_const': {'P_EXPECT': r'/const LOG2_ONES_PER_SUB16: usize =\s*LOG2_ZEROS_PER_INVENTORY\.saturating_sub\(LOG2_U64_PER_SUBINVENTORY\s*\+ 2\);\s*const ONES_PER_SUB16_MASK: usize =\s*\(1 << Self::LOG2_ONES_PER_SUB16\) - 1;\s*const ONES_PER_INVENTORY: usize = \(1 << LOG2_ZEROS_PER_INVENTORY\);\s*const ONES_PER_INVENTORY_MASK: usize =\s*\(1 << LOG2_ZEROS_PER_INVENTORY\) - 1;/', 'P_STRUCT': 'SelectZeroAdaptConst', 'P_MODULE': 'select_zero_adapt_const', 'P_FN': 'select_zero_unchecked', 'P_HINTED': 'select_zero_hinted',
              'P_RK': 'p - rank_spec(bits, p)', 'P_BIT': '!bit_at(bits, p)',
              'P_GEN': '<const LOG2_ZEROS_PER_INVENTORY: usize, const LOG2_U64_PER_SUBINVENTORY: usize>', 'P_TARGS': ', LOG2_ZEROS_PER_INVENTORY, LOG2_U64_PER_SUBINVENTORY',
              'P_L': 'LOG2_ZEROS_PER_INVENTORY', 'P_M': 'LOG2_U64_PER_SUBINVENTORY', 'P_S16': 'sat_sub(LOG2_ZEROS_PER_INVENTORY, (LOG2_U64_PER_SUBINVENTORY + 2) as usize)',
              'P_MASKS': 'true',
              'P_HDR': r'/SelectZeroUnchecked for SelectZeroAdaptConst<B, I, LOG2_ZEROS_PER_INVENTORY, LOG2_U64_PER_SUBINVENTORY>/',
              'P_HDR32': r'/^impl<B, I, const LOG2_ZEROS_PER_INVENTORY ?: usize, const LOG2_U64_PER_SUBINVENTORY ?: usize> SelectZeroAdaptConst<B, I,/', 'P_S32REQ': 'LOG2_U64_PER_SUBINVENTORY < 60', 'P_S32ARGS': 'span', 'P_S32S16': 'sat_sub(LOG2_ZEROS_PER_INVENTORY, (LOG2_U64_PER_SUBINVENTORY + 2) as usize)'},
}


class Unit:
    def __init__(self, name):
        """name is `<file>` or `<file>@<word type>`: the second form instantiates the template
        parameters {W}, {BITS}, {BYTES} of the sidecar (rule R1)."""
        self.name = name
        base, _, inst = name.partition('@')
        self.params = dict(WORDS[inst]) if inst in WORDS else (dict(PARAMSETS[inst]) if inst else {})
        self.path = os.path.join(CONTRACTS, base + '.vc')
        self.slice_recv = []
        self.slice_recv_ref = []
        self.bind_closure = []
        self.substs = []
        self.expect_source = []   # `//@ expect_source /re/`: source text a declared substitution was read from; lost anchor if it changes
        self.elements = []    # ('text', Line) | ('fn', FnSpec) | ('item', dict)
        self.props = set()
        self.fired = {}
        self.fnspecs = []
        self.assumption_notes = []
        self.callee_panics = []
        self._parse(self.path, top=True)

    def _parse(self, path, top):
        if not os.path.exists(path):
            raise ExtractError('missing contract file ' + path)
        rel = os.path.relpath(path, os.path.dirname(CONTRACTS))
        txt = open(path).read()
        for k, v in self.params.items():
            txt = txt.replace('{' + k + '}', v)
        lines = txt.split('\n')
        cur = None          # FnSpec being filled
        sink = None         # list to which plain lines go while inside a fn directive
        for n, raw in enumerate(lines, 1):
            s = raw.strip()
            if s.startswith('//@'):
                d = s[3:].strip()
                word, _, arg = d.partition(' ')
                arg = arg.strip()
                if cur is None:
                    if word == 'unit':
                        pass
                    elif word == 'slice_recv':
                        self.slice_recv.append(arg)
                    elif word == 'slice_recv_ref':
                        self.slice_recv_ref.append(arg)
                    elif word == 'bind_closure':
                        self.bind_closure.append(arg.strip())
                    elif word == 'subst':
                        self.substs.append(_parse_subst(arg, '%s:%d' % (rel, n)))
                    elif word == 'expect_source':
                        self.expect_source.append(arg.strip())
                    elif word == 'include':
                        self._parse(os.path.join(CONTRACTS, arg), top=False)
                    elif word == 'assume':
                        self.assumption_notes.append(arg)
                    elif word == 'callee_panics':
                        # callee_panics name(p1, p2) unless <cond over self and p1..>
                        mm = re.match(r'(\w+)\(([^)]*)\)\s+unless\s+(.*)$', arg)
                        if not mm:
                            raise ExtractError('bad callee_panics at %s:%d' % (rel, n))
                        self.callee_panics.append((mm.group(1), [x.strip() for x in mm.group(2).split(',') if x.strip()], mm.group(3)))
                    elif word == 'fn':
                        cur = FnSpec()
                        parts = [p.strip() for p in arg.split('|')]
                        if len(parts) != 3:
                            raise ExtractError('bad fn key at %s:%d' % (rel, n))
                        cur.module, cur.header, cur.name = parts
                        cur.vcfile, cur.vcline = rel, n
                        sink = None
                    elif word == 'item':
                        parts = [p.strip() for p in arg.split('|')]
                        self.elements.append(('item', {'module': parts[0], 'kind': parts[1], 'name': parts[2],
                                                       'vcfile': rel, 'vcline': n}))
                    else:
                        raise ExtractError('unknown directive %s at %s:%d' % (word, rel, n))
                else:
                    if word == 'endfn':
                        self.elements.append(('fn', cur))
                        self.fnspecs.append(cur)
                        self.props.update(cur.props)
                        cur = None
                        sink = None
                    elif word == 'as':
                        cur.as_name = arg
                    elif word == 'label':
                        cur.label = arg
                    elif word == 'props':
                        cur.props = arg.split()
                    elif word == 'fsubst':
                        cur.fsubst.append(_parse_subst(arg, '%s:%d' % (rel, n)))
                    elif word == 'ret':
                        cur.ret = arg
                    elif word == 'vis':
                        cur.vis = arg
                    elif word == 'attr':
                        cur.attrs.append(arg)
                    elif word == 'skip_before':
                        cur.skip_before = arg.strip()
                    elif word == 'truncate_after':
                        cur.truncate_after = arg.strip()
                    elif word == 'tail':
                        cur.tail_expr = arg.strip()
                    elif word == 'panic_frame':
                        cur.panic_frame = True
                    elif word == 'optional':
                        cur.optional = True
                    elif word == 'no_panic':
                        cur.no_panic = True
                    elif word == 'no_end_probe':
                        cur.no_end_probe = True
                    elif word == 'spec':
                        sink = cur.spec
                    elif word == 'loop':
                        sink = cur.loops.setdefault(int(arg), [])
                    elif word == 'at':
                        sink = []
                        cur.ats.append((arg, sink))
                    else:
                        raise ExtractError('unknown fn directive %s at %s:%d' % (word, rel, n))
            else:
                if cur is None:
                    self.elements.append(('text', Line(raw, 'lib', ofile=rel, oline=n)))
                else:
                    if sink is None:
                        if s:
                            raise ExtractError('stray text inside fn directive at %s:%d' % (rel, n))
                    else:
                        sink.append((raw, rel, n))
        if cur is not None:
            raise ExtractError('unterminated fn directive in ' + rel)


# -- helpers on function text ---------------------------------------------------------------

def _split_sig_body(text):
    code = blank_noncode(text)
    depth = 0
    for i, ch in enumerate(code):
        if ch in '([':
            depth += 1
        elif ch in ')]':
            depth -= 1
        elif ch == '{' and depth == 0:
            return i
    raise ExtractError('no body')


def _loop_headers(code, a, b):
    """offsets of the '{' that opens the body of every while/loop/for in code[a:b], textual order"""
    res = []
    for m in re.finditer(r"(?<![\w'])(while|loop|for)\b", code[a:b]):
        i = a + m.start()
        kw = m.group(1)
        # `for` in `impl<..> X for Y` or HRTB cannot appear inside a body except closures' types; accept
        # skip labels: handled since label precedes keyword
        j = a + m.end()
        depth = 0
        ob = None
        while j < b:
            ch = code[j]
            if ch in '([':
                depth += 1
            elif ch in ')]':
                depth -= 1
            elif ch == '{' and depth == 0:
                ob = j
                break
            elif ch == ';' and depth == 0:
                break
            j += 1
        if ob is not None:
            res.append((i, ob, kw))
    return res


def _top_statements(code, a, b):
    """split code[a:b] (inside of a block) into depth-0 statements; returns list of (start, end)"""
    stmts = []
    i = a
    n = b
    start = None
    depth = 0
    while i < n:
        ch = code[i]
        if start is None:
            if ch.isspace():
                i += 1
                continue
            start = i
        if ch in '([{':
            depth += 1
        elif ch in ')]}':
            depth -= 1
            if ch == '}' and depth == 0:
                # block-like statement ends here unless followed by else / method call / operator
                head = code[start:i + 1].lstrip()
                k = i + 1
                while k < n and code[k].isspace():
                    k += 1
                nxt = code[k:k + 4]
                blocklike = re.match(r"('\w+\s*:\s*)?(if|while|loop|for|match|unsafe|\{)\b|\{", head) is not None
                if blocklike and not nxt.startswith('else') and not (k < n and code[k] in '.?') \
                        and not (k < n and code[k] == ';'):
                    stmts.append((start, i + 1))
                    start = None
        elif ch == ';' and depth == 0:
            stmts.append((start, i + 1))
            start = None
        i += 1
    if start is not None:
        stmts.append((start, n))   # tail expression
    return stmts


class Assembled:
    def __init__(self):
        self.lines = []
        self.fns = []        # info dicts for extracted fns
        self.fired = {}

    def text(self):
        return '\n'.join(l.text for l in self.lines) + '\n'


def _insert(lines, off, new_lines, base):
    """lines: list[Line] whose joined text (with '\n') has offsets; insert new_lines at char offset `off`
    (relative to joined text).  Returns new list."""
    pos = 0
    for idx, l in enumerate(lines):
        end = pos + len(l.text)
        if off <= end:
            col = off - pos
            left = l.text[:col]
            right = l.text[col:]
            out = lines[:idx]
            out.append(Line(left, l.kind, l.fn, l.ofile, l.oline, l.props, l.clause))
            out.extend(new_lines)
            out.append(Line(right, l.kind, l.fn, l.ofile, l.oline, l.props, l.clause))
            out.extend(lines[idx + 1:])
            return out
        pos = end + 1
    raise ExtractError('insert offset out of range')


def assemble(unit, index, expanded_name='expanded.rs', probe=None, lenient=False):
    """probe: None | 'start' | 'end' — add assert(false) vacuity probes to every extracted fn."""
    out = Assembled()
    out.lost = []     # (fn, what) proof hints dropped in lenient mode
    fired = out.fired
    for pat in unit.expect_source:
        rx = pat[1:-1] if pat.startswith('/') and pat.endswith('/') else re.escape(pat)
        if not re.search(rx, index.src, re.S):
            raise ExtractError('source text a declared substitution was read from is gone (lost anchor): %s' % pat[:120])
    for kind, el in unit.elements:
        if kind == 'text':
            out.lines.append(el)
            continue
        if kind == 'item':
            its = index.find_item(el['module'], el['kind'], el['name'])
            if len(its) != 1:
                raise ExtractError('item %s | %s | %s: %d matches' % (el['module'], el['kind'], el['name'], len(its)))
            t = its[0].text
            t = rw.strip_comments_and_attrs(t, fired)
            t = rw.apply_substs(t, unit.substs, fired)
            # visibility has no semantics for the properties (R8); spec functions need to read fields
            t = re.sub(r'pub\s*\((?:super|crate|self|in [^)]*)\)', 'pub', t)
            if el['kind'] == 'struct':
                mt = re.search(r'(struct\s+\w+\s*(?:<[^>]*>)?\s*)\((.*)\)\s*;', t, re.S)
                if mt:
                    fields = [f.strip() for f in _split_top(mt.group(2)) if f.strip()]
                    fields = [f if f.startswith('pub') else 'pub ' + f for f in fields]
                    t = t[:mt.start()] + mt.group(1) + '(' + ', '.join(fields) + ');' + '\n' * mt.group(0).count('\n') + t[mt.end():]
                # only inside the field block: generic parameter lists may continue over several lines (`const N : usize`)
                br = t.find('{')
                if br >= 0:
                    t = t[:br] + re.sub(r'(?m)^(\s+)(?!pub\b)([A-Za-z_]\w*\s*:)', r'\1pub \2', t[br:])
            for k, ln in enumerate(t.split('\n')):
                if ln.strip():
                    out.lines.append(Line(ln, 'src', None, expanded_name, its[0].line + k))
            continue
        fs = el
        cands = index.find_fn(fs.module, fs.header, fs.name)
        if len(cands) == 0 and fs.optional:
            continue
        if len(cands) != 1:
            raise ExtractError('function %s | %s | %s: %d matches in expanded text (lost anchor)'
                               % (fs.module, fs.header, fs.name, len(cands)))
        f = cands[0]
        text = index.src[f.sig_start:f.body_end]
        try:
            text = rw.strip_comments_and_attrs(text, fired)
            if fs.skip_before:
                # R13 (suffix extraction): the body before the first match of the declared pattern is dropped; the variables live at
                # that point become parameters through a declared signature substitution, and what the dropped prefix establishes is
                # stated as `requires` (proved for the prefix in another unit where the unit says so, assumed otherwise)
                pat = fs.skip_before
                if pat.startswith('/') and pat.endswith('/'):
                    pat = pat[1:-1]
                ob0 = _split_sig_body(text)
                mt = re.search(pat, text[ob0:], re.S)
                if not mt:
                    raise ExtractError('%s: skip_before pattern not found (lost anchor)' % fs.display())
                dropped = text[ob0 + 1:ob0 + mt.start()]
                text = text[:ob0 + 1] + '\n' * dropped.count('\n') + text[ob0 + mt.start():]
                fired['R13'] = fired.get('R13', 0) + 1
            if fs.truncate_after:
                # R12 (prefix extraction): the body is cut after the first match of the declared pattern; what follows in the
                # real function is NOT under contract; the declared tail expression returns the state reached so far
                pat = fs.truncate_after
                if pat.startswith('/') and pat.endswith('/'):
                    pat = pat[1:-1]
                mt = re.search(pat, text, re.S)
                if not mt:
                    raise ExtractError('%s: truncate_after pattern not found (lost anchor)' % fs.display())
                dropped = text[mt.end():]
                text = text[:mt.end()] + '\n' * dropped.count('\n') + ' ' + (fs.tail_expr or '') + ' }'
                fired['R12'] = fired.get('R12', 0) + 1
            text = rw.rule_r4_panics(text, fired)
            text = rw.rule_r4_assert_eq(text, fired)
            text = rw.rule_r4p_debug(text, fired)
            text = rw.rule_r6_idioms(text, fired)
            text = rw.rule_r10_mut_self(text, fired)
            text = rw.apply_substs(text, unit.substs, fired)
            text = rw.rule_r11_bind_closure(text, fired, unit.bind_closure)
            text = rw.rule_r3_unchecked(text, fired, unit.slice_recv, unit.slice_recv_ref)
            text = rw.apply_substs(text, fs.fsubst, fired)
            text = rw.rule_r6_for_ref(text, fired)   # a declared substitution may have produced `for &x in slice`
            text = rw.rule_r6_idioms(text, fired)    # ... or an iterator idiom (chunks rewritten to an indexed loop)
        except rw.Unsupported as e:
            raise ExtractError('%s: unsupported construct: %s' % (fs.display(), e))
        except ValueError as e:
            raise ExtractError('%s: %s' % (fs.display(), e))
        ob = _split_sig_body(text)
        sig = text[:ob]
        # signature: name the return value, rename
        code_sig = blank_noncode(sig)
        m = re.search(r'\bfn\s+(' + re.escape(fs.name) + r')\b', code_sig)
        if not m:
            raise ExtractError('%s: fn name not found in signature' % fs.display())
        if fs.as_name:
            sig = sig[:m.start(1)] + fs.as_name + sig[m.end(1):]
            code_sig = blank_noncode(sig)
        # return type
        depth = 0
        arrow = None
        for i in range(len(code_sig) - 1):
            ch = code_sig[i]
            if ch in '([<':
                depth += 1
            elif ch in ')]':
                depth -= 1
            elif ch == '>' and code_sig[i - 1] != '-':
                depth -= 1
            if code_sig[i] == '-' and code_sig[i + 1] == '>' and depth == 0:
                arrow = i
        has_ret = False
        if arrow is not None:
            rt = sig[arrow + 2:]
            # a where clause after the return type
            wm = re.search(r'\bwhere\b', blank_noncode(rt))
            where = ''
            if wm:
                where = rt[wm.start():]
                rt = rt[:wm.start()]
            if rt.strip() != '!':
                nl = rt.count('\n') + where.count('\n')
                sig = sig[:arrow] + '-> (%s: %s) %s' % (fs.ret, norm_ws(rt), norm_ws(where)) + '\n' * nl
                has_ret = True
        if fs.vis is not None:
            sig = re.sub(r'^\s*(pub(\s*\([^)]*\))?\s+)?', fs.vis + ' ' if fs.vis != 'none' else '', sig, count=1)
        dn = fs.display()
        lines = []
        for a in fs.attrs:
            lines.append(Line(a, 'lib', dn, fs.vcfile, fs.vcline))
        for k, ln in enumerate(sig.split('\n')):
            lines.append(Line(ln, 'src', dn, expanded_name, f.line + k, fs.props))
        sig_nl = sig.count('\n')
        for (t, vf, vl) in fs.spec:
            lines.append(Line(t, 'spec', dn, vf, vl, _clause_props(t, fs.props), norm_ws(t)))
        body = text[ob:]
        body_line0 = f.line + text[:ob].count('\n')
        blines = [Line(ln, 'src', dn, expanded_name, body_line0 + k, fs.props) for k, ln in enumerate(body.split('\n'))]
        # insertions, computed on the rewritten body text
        bcode = blank_noncode(body)
        close = match_close(bcode, 0)
        inserts = []   # (offset, [Line])
        loops = _loop_headers(bcode, 1, close)
        for ordinal, spec in fs.loops.items():
            if ordinal >= len(loops):
                if lenient:
                    out.lost.append((dn, 'loop %d invariants (function has %d loops)' % (ordinal, len(loops))))
                    continue
                raise ExtractError('%s: loop %d not found (function has %d loops) (lost anchor)' % (dn, ordinal, len(loops)))
            inserts.append((loops[ordinal][1], 0, [Line(t, 'spec', dn, vf, vl, _clause_props(t, fs.props), norm_ws(t)) for (t, vf, vl) in spec]))
        stmts = _top_statements(bcode, 1, close)
        has_tail = bool(stmts) and not bcode[stmts[-1][0]:stmts[-1][1]].rstrip().endswith(';') and has_ret
        # a tail that is a block-like statement in a unit fn is not a tail expression
        def anchor_off(anchor):
            if anchor == 'start':
                return 1
            if anchor == 'end':
                return close
            if anchor == 'pre_tail':
                if has_tail:
                    return stmts[-1][0]
                return close
            m2 = re.match(r'(before|after)\s+/(.*)/\s*(#(\d+))?$', anchor)
            if m2:
                pat = re.compile(m2.group(2))
                hits = []
                pos = 0
                for k, ln in enumerate(body.split('\n')):
                    if pat.search(ln):
                        hits.append((pos, pos + len(ln)))
                    pos += len(ln) + 1
                want = int(m2.group(4)) if m2.group(4) else None
                if want is None and len(hits) != 1:
                    raise ExtractError('%s: anchor %s matches %d lines (lost anchor)' % (dn, anchor, len(hits)))
                if want is not None and want >= len(hits):
                    raise ExtractError('%s: anchor %s occurrence missing (lost anchor)' % (dn, anchor))
                h = hits[want or 0]
                if m2.group(1) == 'before':
                    # start of the line's first non-blank
                    return h[0]
                return h[1]
            m2 = re.match(r'(before_text|after_text)\s+/(.*)/\s*(#(\d+))?$', anchor)
            if m2:
                hits = list(re.finditer(m2.group(2), body))
                want = int(m2.group(4)) if m2.group(4) else None
                if want is None and len(hits) != 1:
                    raise ExtractError('%s: anchor %s matches %d places (lost anchor)' % (dn, anchor, len(hits)))
                if want is not None and want >= len(hits):
                    raise ExtractError('%s: anchor %s occurrence missing (lost anchor)' % (dn, anchor))
                h = hits[want or 0]
                return h.start() if m2.group(1) == 'before_text' else h.end()
            m2 = re.match(r'loop_start\s+(\d+)$', anchor)
            if m2:
                k = int(m2.group(1))
                if k >= len(loops):
                    raise ExtractError('%s: loop %d not found (lost anchor)' % (dn, k))
                return loops[k][1] + 1
            m2 = re.match(r'loop_end\s+(\d+)$', anchor)
            if m2:
                k = int(m2.group(1))
                if k >= len(loops):
                    raise ExtractError('%s: loop %d not found (lost anchor)' % (dn, k))
                return match_close(bcode, loops[k][1])
            m2 = re.match(r'after_loop\s+(\d+)$', anchor)
            if m2:
                k = int(m2.group(1))
                if k >= len(loops):
                    raise ExtractError('%s: loop %d not found (lost anchor)' % (dn, k))
                return match_close(bcode, loops[k][1]) + 1
            raise ExtractError('%s: unknown anchor %s' % (dn, anchor))
        # inserts: (offset, order, lines); at equal offsets a larger `order` ends up later in the text
        order = 0
        for anchor, blk in fs.ats:
            order += 1
            try:
                off = anchor_off(anchor)
            except ExtractError as e:
                if lenient:
                    out.lost.append((dn, 'proof block at %s' % anchor))
                    continue
                raise
            inserts.append((off, order, [Line(t, 'proof', dn, vf, vl, fs.props) for (t, vf, vl) in blk]))
        if fs.no_panic:
            # the function is claimed never to panic on inputs satisfying its requires: every panic site must be unreachable
            for m3 in re.finditer(r'\bvpanic\(\)', bcode):
                inserts.append((m3.start(), 0, [Line('proof { assert(false); } // no_panic: this panic site must be unreachable', 'gen', dn,
                                                     expanded_name, None, fs.props, 'no-panic')]))
        if fs.panic_frame:
            # every vpanic() in a &mut self method must be reached with self unchanged
            for m3 in re.finditer(r'\bvpanic\(\)', bcode):
                inserts.append((m3.start(), 0, [Line('proof { assert(*self == *old(self)); } // panic leaves contents unchanged', 'gen', dn,
                                                     expanded_name, None, fs.props, 'panic-frame')]))
        if fs.panic_frame:
            for cname, cparams, ccond in unit.callee_panics:
                for m4 in re.finditer(r'\bself\s*\.\s*' + re.escape(cname) + r'\s*\(', bcode):
                    cp = match_close(bcode, m4.end() - 1, '(', ')')
                    args = [a.strip() for a in _split_top(body[m4.end():cp])]
                    if len(args) != len(cparams):
                        raise ExtractError('%s: call of %s with %d arguments' % (dn, cname, len(args)))
                    cond = ccond
                    for pn, av in zip(cparams, args):
                        cond = re.sub(r'\b' + re.escape(pn) + r'\b', '(' + av + ')', cond)
                    # start of the enclosing statement
                    k = m4.start()
                    depth = 0
                    while k > 0:
                        ch = bcode[k - 1]
                        if ch in ')]}':
                            depth += 1
                        elif ch in '([{':
                            if depth == 0:
                                break
                            depth -= 1
                        elif ch == ';' and depth == 0:
                            break
                        k -= 1
                    inserts.append((k, 0, [Line('proof { assert((%s) || *self == *old(self)); } // a callee that may panic is entered with contents unchanged' % cond,
                                                'gen', dn, expanded_name, None, fs.props, 'panic-frame')]))
        if probe == 'start':
            inserts.append((1, 10 ** 6, [Line('assert(false); // VACUITY-PROBE', 'probe', dn, fs.vcfile, fs.vcline)]))
        elif probe == 'end' and not fs.no_end_probe:
            inserts.append((anchor_off('pre_tail'), 10 ** 6, [Line('assert(false); // VACUITY-PROBE', 'probe', dn, fs.vcfile, fs.vcline)]))
        groups = {}
        for off, o, new in sorted(inserts, key=lambda x: (x[0], x[1])):
            groups.setdefault(off, []).extend(new)
        for off in sorted(groups, reverse=True):
            blines = _insert(blines, off, groups[off], None)
        lines.extend(blines)
        out.lines.extend(lines)
        out.fns.append({'name': dn, 'key': f.key(), 'expanded_line': f.line, 'props': fs.props,
                        'nloops': len(loops), 'vc': '%s:%d' % (fs.vcfile, fs.vcline)})
    # drop blank source lines to keep files readable (line map is per Line, so this is safe)
    out.lines = [l for l in out.lines if not (l.kind == 'src' and not l.text.strip())]
    return out


def _split_top(s):
    out = []
    depth = 0
    cur = ''
    for ch in s:
        if ch in '([{':
            depth += 1
        elif ch in ')]}':
            depth -= 1
        if ch == ',' and depth == 0:
            out.append(cur)
            cur = ''
        else:
            cur += ch
    if cur.strip():
        out.append(cur)
    return out


def _clause_props(text, default):
    m = re.search(r'//\s*\[((?:C\d+\s*)+)\]', text)
    if m:
        return m.group(1).split()
    return default
