"""Drivers: macro expansion of the working tree, Verus runs, diagnostics -> named obligations."""
import hashlib
import json
import os
import re
import subprocess
import time

from .rsparse import Index, norm_ws, blank_noncode
from .assemble import Unit, assemble, ExtractError

ROOT = os.path.dirname(os.path.dirname(os.path.abspath(__file__)))
REPO = os.environ.get('VERIF_REPO', '/repo')
CACHE = os.path.join(ROOT, '.cache')
# generated unit files: /verif/build for the default tree; a separate directory per alternative tree (VERIF_REPO), so that
# a seeded / scratch run never shares generated files with a run on /repo
BUILD = os.path.join(ROOT, 'build') if os.path.abspath(REPO) == '/repo' else os.path.join(
    CACHE, 'build-' + hashlib.sha1(os.path.abspath(REPO).encode()).hexdigest()[:8])
VERUS_RLIMIT = os.environ.get('VERIF_RLIMIT', '50')
VERUS_TIMEOUT = 900


class Inconclusive(Exception):
    pass


def sh(cmd, **kw):
    return subprocess.run(cmd, stdout=subprocess.PIPE, stderr=subprocess.PIPE, text=True, **kw)


def tree_hash(repo=None):
    """content hash of everything the library build depends on"""
    repo = repo or REPO
    h = hashlib.sha256()
    paths = []
    for base in ('src',):
        for dp, dn, fn in os.walk(os.path.join(repo, base)):
            dn.sort()
            for f in sorted(fn):
                paths.append(os.path.join(dp, f))
    for f in ('Cargo.toml', 'Cargo.lock', 'README.md'):
        p = os.path.join(repo, f)
        if os.path.exists(p):
            paths.append(p)
    for p in paths:
        h.update(os.path.relpath(p, repo).encode())
        h.update(b'\0')
        with open(p, 'rb') as fh:
            h.update(fh.read())
        h.update(b'\0')
    return h.hexdigest()[:20]


_INDEX = {}


def expanded(repo=None):
    """(path, Index) of the rustc-expanded text of the current working tree (cached by content hash)."""
    repo = repo or REPO
    th = tree_hash(repo)
    if th in _INDEX:
        return _INDEX[th]
    os.makedirs(CACHE, exist_ok=True)
    path = os.path.join(CACHE, 'expanded-%s.rs' % th)
    if not os.path.exists(path):
        env = dict(os.environ)
        env['CARGO_NET_OFFLINE'] = 'true'
        t = time.time()
        r = sh(['cargo', '+nightly', 'rustc', '--manifest-path', os.path.join(repo, 'Cargo.toml'), '--lib', '--offline',
                '--target-dir', os.path.join(CACHE, 'expand-target' + ('' if os.path.abspath(repo) == '/repo' else '-alt')), '--', '-Zunpretty=expanded'], env=env)
        if r.returncode != 0 or len(r.stdout) < 1000:
            raise Inconclusive('macro expansion of the working tree failed (does it compile?): ' + r.stderr[-800:])
        tmp = path + '.tmp%d' % os.getpid()
        with open(tmp, 'w') as fh:
            fh.write(r.stdout)
        os.replace(tmp, path)
        # keep the cache small: drop older expansions
        olds = sorted((f for f in os.listdir(CACHE) if f.startswith('expanded-') and f.endswith('.rs')),
                      key=lambda f: os.path.getmtime(os.path.join(CACHE, f)))
        for f in olds[:-4]:
            try:
                os.remove(os.path.join(CACHE, f))
            except OSError:
                pass
    src = open(path).read()
    ix = Index(src)
    _INDEX[th] = (path, ix, th)
    return _INDEX[th]


# ---------------------------------------------------------------------------------------------

VERIF_FAIL_PATTERNS = [
    (r'postcondition not satisfied', 'ensures'),
    (r'precondition not met: index in bounds', 'index'),
    (r'index in bounds|index out of bounds', 'index'),
    (r'precondition not met', 'requires@call'),
    (r'precondition not satisfied', 'requires@call'),
    (r'assertion failed', 'assert'),
    (r'invariant not satisfied at end of loop body', 'invariant(end)'),
    (r'invariant not satisfied before loop', 'invariant(entry)'),
    (r'loop invariant not satisfied', 'invariant'),
    (r'possible arithmetic underflow/overflow', 'overflow'),
    (r'possible bit shift underflow/overflow', 'shift'),
    (r'possible division by zero', 'div0'),
    (r'decreases not satisfied', 'decreases'),
    (r'could not prove termination', 'decreases'),
    (r'recommendation not met', 'recommends'),
    (r'possible truncation|cast', 'cast'),
    (r'unreachable', 'unreachable'),
    (r'requires not satisfied', 'requires@call'),
    (r'broadcast', 'broadcast'),
]
RLIMIT_PAT = re.compile(r'Resource limit \(rlimit\) exceeded|resource limit', re.I)


def file_id(unit_name, probe=None):
    s = re.sub(r'[^A-Za-z0-9_]', '_', unit_name)
    return s + ('__probe_' + probe if probe else '')


def verus_run(path, text):
    """run verus on `text` (already written to `path`); cached by content hash"""
    h = hashlib.sha256((text + '\n// rlimit ' + VERUS_RLIMIT).encode()).hexdigest()[:24]
    cdir = os.path.join(CACHE, 'verus')
    os.makedirs(cdir, exist_ok=True)
    cp = os.path.join(cdir, h + '.json')
    if os.path.exists(cp) and not os.environ.get('VERIF_NO_CACHE'):
        try:
            res = json.load(open(cp))
            res['cached'] = True
            return res
        except Exception:
            pass
    cmd = ['verus', path, '--output-json', '--time-expanded', '--error-format=json', '--multiple-errors', '6',
           '--rlimit', VERUS_RLIMIT, '--triggers-mode', 'silent']
    with open(path, 'w') as fh:   # (re)write immediately before the run: the file on disk is the text whose hash keys the cache
        fh.write(text)
    t = time.time()
    try:
        r = subprocess.run(cmd, stdout=subprocess.PIPE, stderr=subprocess.PIPE, text=True, timeout=VERUS_TIMEOUT,
                           cwd=BUILD)
        rc, out, err = r.returncode, r.stdout, r.stderr
        timed_out = False
    except subprocess.TimeoutExpired as e:
        rc, out, err, timed_out = -9, (e.stdout or ''), (e.stderr or ''), True
        if isinstance(out, bytes):
            out = out.decode(errors='replace')
        if isinstance(err, bytes):
            err = err.decode(errors='replace')
    wall = time.time() - t
    try:
        oj = json.loads(out)
    except Exception:
        oj = None
    diags = []
    raw = []
    for ln in err.split('\n'):
        ln = ln.strip()
        if not ln:
            continue
        try:
            j = json.loads(ln)
            if isinstance(j, dict) and 'message' in j:
                diags.append({'level': j.get('level'), 'message': j.get('message'),
                              'code': (j.get('code') or {}).get('code') if j.get('code') else None,
                              'spans': [{'line': s['line_start'], 'line_end': s['line_end'], 'label': s.get('label'),
                                         'primary': s.get('is_primary')} for s in j.get('spans', [])],
                              'rendered': (j.get('rendered') or '')[:3000]})
            else:
                raw.append(ln)
        except Exception:
            raw.append(ln)
    res = {'cmd': ' '.join(cmd[:1] + [os.path.basename(path)] + cmd[2:]), 'rc': rc, 'timed_out': timed_out, 'wall_s': round(wall, 2),
           'out': oj, 'diags': diags, 'raw_stderr': raw[-20:], 'cached': False}
    if not timed_out:
        tmp = cp + '.tmp%d' % os.getpid()
        with open(tmp, 'w') as fh:
            json.dump(res, fh)
        os.replace(tmp, cp)
    return res


class UnitResult:
    def __init__(self, name):
        self.name = name
        self.status = None          # 'ok' | 'failed' | 'inconclusive'
        self.reason = ''
        self.failed = []            # obligation dicts
        self.obligations = []       # every enumerated obligation (dict: name, fn, kind, props, text)
        self.fn_info = []
        self.fired = {}
        self.verus = None
        self.smt_ms = 0
        self.verified_fns = 0
        self.file = None
        self.scan = {}
        self.probes = {}
        self.assumption_notes = []
        self.wall_s = 0
        self.degraded = []
        self.degraded_fns = []

    def to_json(self):
        return {k: getattr(self, k) for k in ('name', 'status', 'reason', 'failed', 'fired', 'smt_ms', 'verified_fns',
                                              'file', 'scan', 'probes', 'wall_s')}


def enumerate_obligations(unit, asm):
    """Lexical enumeration of the proof obligations of the extracted functions (for evidence counts
    and for naming).  One entry per spec clause (ensures / invariant / decreases), per index site,
    per arithmetic/shift site, per assertion, per call to a function that has a `requires`."""
    obs = []
    # names of functions carrying a requires clause (extracted or stubs in the library text)
    text = asm.text()
    req_fns = set()
    for m in re.finditer(r'\bfn\s+(\w+)\b[^{;]*?\brequires\b', text, re.S):
        req_fns.add(m.group(1))
    per_fn = {}
    section = None
    for ln in asm.lines:
        if ln.fn is None:
            continue
        d = per_fn.setdefault(ln.fn, {'props': ln.props or [], 'n': {}})
        t = ln.text
        if ln.kind == 'spec':
            body = t.split('//')[0]
            mm = re.match(r'\s*(requires|ensures|invariant_except_break|invariant|decreases|recommends)\b(.*)', body)
            if mm:
                section = mm.group(1)
                body = mm.group(2)
            for cl in _split_clauses(body):
                if section in ('ensures', 'invariant', 'invariant_except_break', 'decreases'):
                    obs.append({'fn': ln.fn, 'kind': section, 'text': norm_ws(cl), 'props': ln.props or [],
                                'origin': '%s:%s' % (ln.ofile, ln.oline)})
        elif ln.kind == 'src':
            code = blank_noncode(t)
            for kind, pat in (('index', r'\w\s*\[[^\]]'), ('overflow', r'(?<![<>=!&|+\-*/%^])(\+|-(?!>)|\*)(?![=>])|\+=|-=|\*='),
                              ('shift', r'<<|>>'), ('div0', r'(?<![/*])/(?![/*=])|%'), ('assert', r'\bassert\s*\(')):
                k = len(re.findall(pat, code))
                for _ in range(k):
                    obs.append({'fn': ln.fn, 'kind': kind, 'text': norm_ws(t), 'props': _src_props(kind, ln.props),
                                'origin': 'expanded:%s' % ln.oline})
            for m in re.finditer(r'\b(\w+)\s*\(', code):
                if m.group(1) in req_fns and not re.search(r'\bfn\s+' + m.group(1) + r'\b', code):
                    obs.append({'fn': ln.fn, 'kind': 'requires@call', 'text': m.group(1) + '(..) in: ' + norm_ws(t),
                                'props': _src_props('requires@call', ln.props), 'origin': 'expanded:%s' % ln.oline})
        elif ln.kind in ('proof',):
            for _ in re.findall(r'\bassert\b', blank_noncode(t)):
                obs.append({'fn': ln.fn, 'kind': 'proof-assert', 'text': norm_ws(t)[:160], 'props': ln.props or [],
                            'origin': '%s:%s' % (ln.ofile, ln.oline)})
        elif ln.kind == 'gen':
            obs.append({'fn': ln.fn, 'kind': 'panic-frame', 'text': 'panic reached with contents unchanged',
                        'props': ln.props or [], 'origin': 'generated'})
    # library lemmas: one obligation each
    for m in re.finditer(r'\bproof\s+fn\s+(\w+)', '\n'.join(l.text for l in asm.lines if l.kind == 'lib')):
        obs.append({'fn': m.group(1), 'kind': 'lemma', 'text': 'proof of ' + m.group(1), 'props': ['*'], 'origin': 'lib'})
    for i, o in enumerate(obs):
        o['unit'] = unit.name
    return obs


def _src_props(kind, props):
    props = list(props or [])
    if kind in ('index', 'requires@call') and 'C12' not in props:
        # an index obligation created by R3 / a callee precondition is a memory-safety obligation
        pass
    return props


def _split_clauses(s):
    out = []
    depth = 0
    cur = ''
    for ch in s:
        if ch in '([{':
            depth += 1
        elif ch in ')]}':
            depth -= 1
        if ch == ',' and depth == 0:
            if cur.strip():
                out.append(cur)
            cur = ''
        else:
            cur += ch
    if cur.strip():
        out.append(cur)
    return out


ASSUME_SCAN = [('assume(', r'\bassume\s*\('), ('admit(', r'\badmit\s*\('), ('external_body', r'external_body'),
               ('assume_specification', r'assume_specification'), ('verifier::external', r'verifier::external(?!_body)'),
               ('#[verifier::exec_allows_no_decreases_clause]', r'exec_allows_no_decreases_clause'),
               ('assume_false/unreached', r'\bunreached\s*\(')]


def scan_assumptions(text):
    code = blank_noncode(text)
    return {k: len(re.findall(p, code)) for k, p in ASSUME_SCAN}


def classify(diag):
    msg = diag['message']
    for pat, kind in VERIF_FAIL_PATTERNS:
        if re.search(pat, msg):
            return kind
    return None


def run_unit(unit_name, index_tuple=None, with_probes=True, params=None):
    res = UnitResult(unit_name)
    t0 = time.time()
    try:
        path, ix, th = index_tuple or expanded()
        unit = Unit(unit_name) if params is None else Unit(unit_name, params)
        try:
            asm = assemble(unit, ix)
        except ExtractError as e:
            if 'lost anchor' not in str(e):
                raise
            # degraded mode (DESIGN.md 3.7): the function was rewritten and a proof hint has no place to go.
            # Keep every contract, drop the orphaned hints; a failure is then reported only with a replayed witness.
            asm = assemble(unit, ix, lenient=True)
            res.degraded = [('%s: %s' % x) for x in asm.lost]
            res.degraded_fns = sorted(set(x[0] for x in asm.lost))
    except ExtractError as e:
        res.status = 'inconclusive'
        res.reason = 'extraction: %s' % e
        res.wall_s = round(time.time() - t0, 2)
        try:
            uprops = sorted(Unit(unit_name).props) if params is None else sorted(Unit(unit_name, params).props)
        except Exception:
            uprops = []
        if uprops:
            # the unit cannot be assembled from the current text (a function or a source anchor is gone): like a rejected file,
            # every obligation is undecided; the executable twins may still refute the contract with a replayed input, otherwise exit 2
            res.failed = [{'name': '%s::*::rejected[verifier cannot process the current text of the unit]' % unit_name,
                           'unit': unit_name, 'fn': '*', 'kind': 'rejected', 'clause': None, 'site': None, 'site_line': None, 'lib_site': None,
                           'props': uprops, 'message': 'extraction: %s' % e, 'rendered': str(e), 'needs_witness': True}]
            res.rejected = True
            res.status = 'failed'
        return res
    os.makedirs(BUILD, exist_ok=True)
    fid = file_id(unit_name)
    fpath = os.path.join(BUILD, fid + '.rs')
    text = asm.text()
    with open(fpath, 'w') as fh:
        fh.write(text)
    res.file = fpath
    res.fired = dict(asm.fired)
    res.fn_info = asm.fns
    res.obligations = enumerate_obligations(unit, asm)
    res.scan = scan_assumptions(text)
    res.assumption_notes = unit.assumption_notes
    vr = verus_run(fpath, text)
    res.verus = {k: vr[k] for k in ('cmd', 'rc', 'timed_out', 'wall_s', 'cached')}
    res.all_diags = vr['diags']
    _interpret(res, vr, asm)
    if res.degraded:
        # obligations of rewritten functions are undecided unless a witness confirms them
        if res.status == 'inconclusive' and not res.reason.startswith('verus timeout'):
            res.failed = [{'name': '%s::%s::degraded[proof hints lost after a rewrite: %s]' % (unit_name, fn, '; '.join(x for x in res.degraded if x.startswith(fn + ':'))),
                           'unit': unit_name, 'fn': fn, 'kind': 'degraded', 'clause': None, 'site': None, 'site_line': None, 'lib_site': None,
                           'props': next((f['props'] for f in asm.fns if f['name'] == fn), []),
                           'message': 'verus: ' + res.reason, 'rendered': res.reason, 'needs_witness': True} for fn in res.degraded_fns]
            res.status = 'failed'
        for fo in res.failed:
            if fo.get('fn') in res.degraded_fns:
                fo['needs_witness'] = True
        res.reason = (res.reason + ' ' if res.reason else '') + 'DEGRADED: ' + '; '.join(res.degraded)
    if (not res.degraded and res.status == 'inconclusive' and res.reason.startswith('verus rejected the file')):
        # the current text of an extracted function is outside what Verus accepts (DESIGN.md 3.7): every obligation of the
        # unit is undecided.  The executable contract twins may still refute the contract on the real code; without a
        # replayed failing input the verdict stays inconclusive (exit 2), never a violation.
        props = sorted(set(p for f in asm.fns for p in f.get('props', [])))
        res.failed = [{'name': '%s::*::rejected[verifier cannot process the current text of the unit]' % unit_name,
                       'unit': unit_name, 'fn': '*', 'kind': 'rejected', 'clause': None, 'site': None, 'site_line': None, 'lib_site': None,
                       'props': props, 'message': 'verus: ' + res.reason, 'rendered': res.reason, 'needs_witness': True}]
        res.rejected = True
        res.status = 'failed'
    # vacuity probes only matter for a unit that verified; on a failing unit they add nothing and can run the solver to its time limit
    if with_probes and res.status == 'ok' and not res.degraded and not getattr(res, 'rejected', False):
        _run_probes(res, unit, ix)
    res.wall_s = round(time.time() - t0, 2)
    return res


def _interpret(res, vr, asm):
    oj = vr['out']
    if vr['timed_out']:
        res.status = 'inconclusive'
        res.reason = 'verus timeout'
        return
    if oj is None:
        res.status = 'inconclusive'
        res.reason = 'verus produced no JSON (crash?): ' + ' | '.join(vr['raw_stderr'][-3:])
        return
    vres = oj.get('verification-results', {})
    res.verified_fns = vres.get('verified', 0)
    try:
        res.smt_ms = oj['times-ms']['smt']['total']
        res.fn_times = {}
        for mt in oj['times-ms']['smt'].get('smt-run-module-times', []):
            for fb in mt.get('function-breakdown', []):
                res.fn_times[fb['function']] = {'ms': fb['time'], 'ok': fb['success'], 'mode': fb.get('mode:')}
    except Exception:
        res.fn_times = {}
    errors = [d for d in vr['diags'] if d['level'] == 'error' and d['message'] and not d['message'].startswith('aborting due to')]
    if vres.get('success') and not errors:
        if res.verified_fns == 0:
            res.status = 'inconclusive'
            res.reason = 'zero functions verified (vacuous run)'
        else:
            res.status = 'ok'
        return
    failed = []
    other = []
    rlimit_fns = set()
    for d in errors:
        kind = classify(d)
        if RLIMIT_PAT.search(d['message']):
            fn = _fn_of(d, asm)
            rlimit_fns.add(fn)
            continue
        if kind is None or not d['spans']:
            other.append(d)
            continue
        failed.append(_name_obligation(res.name, kind, d, asm))
    if other and (vres.get('encountered-vir-error') or vres.get('errors', 0) == 0 or not failed):
        res.status = 'inconclusive'
        res.reason = 'verus rejected the file (unsupported construct or type error): ' + '; '.join(
            '%s @gen-line %s' % (d['message'][:160], d['spans'][0]['line'] if d['spans'] else '?') for d in other[:3])
        res.failed = []
        return
    if failed:
        res.status = 'failed'
        res.failed = failed
        if rlimit_fns:
            res.reason = 'also rlimit in: ' + ', '.join(sorted(x or '?' for x in rlimit_fns))
        return
    if rlimit_fns:
        res.status = 'inconclusive'
        res.reason = 'resource limit exceeded in: ' + ', '.join(sorted(x or '?' for x in rlimit_fns))
        return
    res.status = 'inconclusive'
    res.reason = 'verus failed without a classifiable diagnostic: ' + '; '.join(d['message'][:160] for d in other[:3])


def _fn_of(d, asm):
    for s in d['spans']:
        ln = s['line']
        if 1 <= ln <= len(asm.lines):
            if asm.lines[ln - 1].fn:
                return asm.lines[ln - 1].fn
    # fall back: nearest preceding `fn name`
    for s in d['spans']:
        ln = s['line']
        for k in range(min(ln, len(asm.lines)) - 1, -1, -1):
            m = re.search(r'\bfn\s+(\w+)', asm.lines[k].text)
            if m:
                return m.group(1)
    return None


def _name_obligation(unit_name, kind, d, asm):
    fn = _fn_of(d, asm)
    spec_txt = None
    site_txt = None
    site_line = None
    props = None
    lib_site = None
    for s in sorted(d['spans'], key=lambda s: not s['primary']):
        ln = s['line']
        if not (1 <= ln <= len(asm.lines)):
            continue
        L = asm.lines[ln - 1]
        if L.kind == 'spec' and spec_txt is None:
            # narrow to the clause if the span is on one line
            spec_txt = norm_ws(L.text.split('//')[0])
            if L.props:
                props = L.props
        elif L.kind == 'src' and site_txt is None:
            site_txt = norm_ws(L.text)
            site_line = L.oline
            if props is None:
                props = L.props
        elif L.kind in ('proof', 'gen', 'probe') and site_txt is None:
            site_txt = norm_ws(L.text)
            site_line = '%s:%s' % (L.ofile, L.oline)
            if props is None:
                props = L.props
            if L.kind == 'gen':
                kind = L.clause or 'panic-frame'
            if L.kind == 'probe':
                kind = 'vacuity-probe'
        elif L.kind == 'lib' and lib_site is None:
            lib_site = '%s:%s %s' % (L.ofile, L.oline, norm_ws(L.text)[:120])
    if props is None:
        for f in asm.fns:
            if f['name'] == fn:
                props = f['props']
    what = spec_txt if (kind in ('ensures', 'invariant', 'invariant(end)', 'invariant(entry)', 'decreases') and spec_txt) else (site_txt or spec_txt or lib_site or '?')
    name = '%s::%s::%s[%s]' % (unit_name, fn or '?', kind, what)
    return {'name': name, 'unit': unit_name, 'fn': fn, 'kind': kind, 'clause': spec_txt, 'site': site_txt,
            'site_line': site_line, 'lib_site': lib_site, 'props': props or [], 'message': d['message'],
            'rendered': d['rendered']}


def _run_probes(res, unit, ix):
    """vacuity: every extracted function must FAIL an `assert(false)` placed at its start / before its tail"""
    res.probes = {'expected': 0, 'failed_as_expected': 0, 'vacuous': []}
    for where in ('start', 'end'):
        try:
            asm = assemble(unit, ix, probe=where)
        except ExtractError as e:
            res.probes['error'] = str(e)
            return
        text = asm.text()
        fpath = os.path.join(BUILD, file_id(unit.name, where) + '.rs')
        with open(fpath, 'w') as fh:
            fh.write(text)
        vr = verus_run(fpath, text)
        probe_lines = {i + 1: l.fn for i, l in enumerate(asm.lines) if l.kind == 'probe'}
        hit = set()
        for d in vr['diags']:
            if d['level'] != 'error':
                continue
            for s in d['spans']:
                if s['line'] in probe_lines:
                    hit.add(probe_lines[s['line']])
            if RLIMIT_PAT.search(d['message'] or ''):
                # the solver ran out of resources while trying to derive `false`: no contradiction was found, i.e. the
                # probe was NOT verified; recorded separately
                fn = _fn_of(d, asm)
                if fn:
                    hit.add(fn)
                    res.probes.setdefault('undetermined_rlimit', []).append('%s@%s' % (fn, where))
        if vr['out'] is None or vr['timed_out']:
            res.probes['error'] = 'probe run produced no result'
            return
        for ln, fn in probe_lines.items():
            res.probes['expected'] += 1
            if fn in hit:
                res.probes['failed_as_expected'] += 1
            else:
                res.probes['vacuous'].append('%s@%s' % (fn, where))
