"""Rewrite rules R3, R4, R4', R6, R8 (DESIGN.md section 3.2) on extracted function text.

All rules keep the number of newlines of the text they touch, so that line k of the
rewritten function is line k of the function in rustc's expanded output.
"""
import re
from .rsparse import blank_noncode, match_close, norm_ws


class Unsupported(Exception):
    pass


def _keep_nl(old, new):
    """replacement text for `old` that carries the same number of newlines"""
    return new + '\n' * old.count('\n')


def splice(text, a, b, new):
    return text[:a] + _keep_nl(text[a:b], new) + text[b:]


def strip_comments_and_attrs(text, fired):
    """R8: remove comments and attributes."""
    out = list(text)
    code = blank_noncode(text)
    # comments: positions where code is blank but text is not, and the text run starts with //
    n = len(text)
    i = 0
    while i < n:
        if text[i] == '/' and i + 1 < n and text[i + 1] in '/*' and code[i] == ' ':
            # find extent: contiguous blanked region until code resumes or newline for //
            if text[i + 1] == '/':
                j = text.find('\n', i)
                j = n if j < 0 else j
            else:
                depth = 1
                j = i + 2
                while j < n and depth:
                    if text.startswith('/*', j):
                        depth += 1
                        j += 2
                    elif text.startswith('*/', j):
                        depth -= 1
                        j += 2
                    else:
                        j += 1
            for k in range(i, j):
                if out[k] != '\n':
                    out[k] = ' '
            fired['R8'] = fired.get('R8', 0) + 1
            i = j
        else:
            i += 1
    text = ''.join(out)
    # attributes
    while True:
        code = blank_noncode(text)
        m = re.search(r'#!?\[', code)
        if not m:
            break
        close = match_close(code, m.end() - 1, '[', ']')
        text = splice(text, m.start(), close + 1, '')
        fired['R8'] = fired.get('R8', 0) + 1
    return text


PANIC_CALLS = [
    '::core::panicking::panic_fmt', '::core::panicking::panic', '::core::panicking::assert_failed',
    '::core::panicking::unreachable_display', '::core::panicking::panic_display',
    '::core::panicking::panic_explicit', '::std::rt::begin_panic', '::core::panicking::panic_nounwind',
    '::std::rt::panic_fmt', '::core::panicking::assert_matches_failed',
]


def rule_r4_panics(text, fired, panic_stmt='vpanic()'):
    """R4: every call of a core panicking entry point becomes `vpanic()`."""
    while True:
        code = blank_noncode(text)
        best = None
        for p in PANIC_CALLS:
            for m in re.finditer(re.escape(p) + r'\s*(::<[^>]*>)?\s*\(', code):
                # make sure it is not a prefix of a longer path (panic vs panic_fmt)
                if best is None or m.start() < best.start():
                    best = m
                break
        if best is None:
            break
        close = match_close(code, best.end() - 1, '(', ')')
        text = splice(text, best.start(), close + 1, panic_stmt)
        fired['R4'] = fired.get('R4', 0) + 1
    return text


def rule_r4_assert_eq(text, fired):
    """assert_eq!/assert_ne! expansion:
         match (&A, &B) { (left_val, right_val) => { if !(*left_val == *right_val) { let kind = ..; vpanic(); } } }
       -> if !(A == B) { vpanic(); }
    (applied after R4)."""
    while True:
        code = blank_noncode(text)
        m = re.search(r'match\s*\(\s*&', code)
        if not m:
            break
        op = code.index('(', m.start())
        cp = match_close(code, op, '(', ')')
        inner = text[op + 1:cp]
        icode = code[op + 1:cp]
        # split at top-level comma
        depth = 0
        cut = None
        for k, ch in enumerate(icode):
            if ch in '([{':
                depth += 1
            elif ch in ')]}':
                depth -= 1
            elif ch == ',' and depth == 0:
                cut = k
                break
        if cut is None:
            raise Unsupported('match (&..) without two operands')
        a = inner[:cut].strip()
        b = inner[cut + 1:].strip()
        if not (a.startswith('&') and b.startswith('&')):
            raise Unsupported('match on tuple that is not an assert_eq expansion')
        a = a[1:].strip()
        b = b[1:].strip()
        ob = code.index('{', cp)
        cb = match_close(code, ob)
        blk = norm_ws(text[ob:cb + 1])
        mm = re.match(r'\{ \(left_val, right_val\) => \{ if !\(\*left_val (==|!=) \*right_val\) \{ let kind = [^;]*; vpanic\(\) ?; \} \} \}$', blk)
        if not mm:
            raise Unsupported('match (&a,&b) block is not an assert_eq expansion: ' + blk[:120])
        text = splice(text, m.start(), cb + 1, 'if !((%s) %s (%s)) { vpanic(); }' % (a, mm.group(1), b))
        fired['R4eq'] = fired.get('R4eq', 0) + 1
    return text


def rule_r4p_debug(text, fired):
    """R4': `if true { if !(C) { {vpanic();} }; };`  ->  `assert(C);`
            `if true { if !(A == B) { vpanic(); }; };` likewise."""
    pos = 0
    while True:
        code = blank_noncode(text)
        m = re.compile(r'\bif\s+true\s*\{').search(code, pos)
        if not m:
            break
        ob = m.end() - 1
        cb = match_close(code, ob)
        inner = norm_ws(text[ob + 1:cb])
        mm = re.match(r'if !\((.*)\) \{ (\{ )?vpanic\(\) ?;? ?(\} ?)?\} ?;?$', inner)
        if not mm:
            # a genuine `if true {}`? leave it; Verus will see it as is
            pos = m.end()
            continue
        cond = mm.group(1)
        # make sure the parenthesis captured is balanced
        if not _balanced(cond):
            pos = m.end()
            continue
        end = cb + 1
        # swallow a trailing ';'
        k = end
        while k < len(code) and code[k] in ' \t':
            k += 1
        if k < len(code) and code[k] == ';':
            end = k + 1
        # evaluate the condition in exec mode (as the debug build does), then require it
        text = splice(text, m.start(), end, '{ let r4_dbg: bool = %s; assert(r4_dbg); }' % cond)
        fired["R4'"] = fired.get("R4'", 0) + 1
    return text


def _balanced(s):
    d = 0
    for ch in s:
        if ch in '([{':
            d += 1
        elif ch in ')]}':
            d -= 1
            if d < 0:
                return False
    return d == 0


def _receiver_start(code, dot):
    """code[dot] == '.', return start offset of the postfix-expression chain ending at dot."""
    j = dot - 1
    while j >= 0:
        while j >= 0 and code[j].isspace():
            j -= 1
        if j < 0:
            break
        ch = code[j]
        if ch in ')]':
            # match backwards
            openc = '(' if ch == ')' else '['
            depth = 0
            k = j
            while k >= 0:
                if code[k] == ch:
                    depth += 1
                elif code[k] == openc:
                    depth -= 1
                    if depth == 0:
                        break
                k -= 1
            j = k - 1
            # a call/index is preceded by an identifier or another postfix; continue
            continue
        if ch.isalnum() or ch == '_':
            k = j
            while k >= 0 and (code[k].isalnum() or code[k] == '_'):
                k -= 1
            # path segments a::b
            start = k + 1
            kk = k
            while kk >= 0 and code[kk].isspace():
                kk -= 1
            if kk >= 1 and code[kk] == ':' and code[kk - 1] == ':':
                j = kk - 2
                continue
            # preceded by '.' => part of chain
            if kk >= 0 and code[kk] == '.':
                j = kk - 1
                continue
            return start
        if ch == '?':
            j -= 1
            continue
        break
    return j + 1


def rule_r3_unchecked(text, fired, slice_recv, ref_recv=()):
    """R3: RECV.get_unchecked(I) / *RECV.get_unchecked(I) / *RECV.get_unchecked_mut(I) -> RECV[I]
    for receivers whose normalised text matches one of `slice_recv` (regex list)."""
    pos = 0
    while True:
        code = blank_noncode(text)
        m = re.compile(r'\.\s*get_unchecked(_mut)?\s*\(').search(code, pos)
        if not m:
            break
        dot = m.start()
        rs = _receiver_start(code, dot)
        recv = norm_ws(text[rs:dot])
        recv_n = re.sub(r'\s*\.\s*', '.', recv)
        if not any(re.fullmatch(p, recv_n) for p in list(slice_recv) + list(ref_recv)):
            pos = m.end()
            continue
        close = match_close(code, m.end() - 1, '(', ')')
        arg = text[m.end():close]
        # leading deref?
        k = rs - 1
        while k >= 0 and code[k].isspace():
            k -= 1
        start = rs
        if k >= 0 and code[k] == '*':
            # make sure it is a unary deref (previous significant char is not an operand)
            kk = k - 1
            while kk >= 0 and code[kk].isspace():
                kk -= 1
            unary = kk < 0 or not (code[kk].isalnum() or code[kk] in '_)]')
            if not unary:
                # `return *x.get_unchecked(i)`: the word before the star is a keyword, not an operand
                wm = re.search(r'(\w+)$', code[:kk + 1])
                unary = bool(wm) and wm.group(1) in ('return', 'in', 'else', 'break', 'match', 'if', 'while')
            if unary:
                start = k
        # leading borrow of the element (`&bits.get_unchecked(i)`) is left alone
        as_ref = start == rs and any(re.fullmatch(p, recv_n) for p in ref_recv)
        text = splice(text, start, close + 1, ('(&%s[%s])' if as_ref else '%s[%s]') % (recv, norm_ws(arg)))
        fired['R3'] = fired.get('R3', 0) + 1
        pos = start
    return text


# R6 idioms -------------------------------------------------------------------------------
# Each pattern is matched on whitespace-normalised statement text; the replacement is an indexed loop.
R6_PATTERNS = [
    # S[..N].iter_mut().for_each(|x| *x = E);      (also par_iter_mut().with_min_len(K))
    (re.compile(r'(?P<s>[A-Za-z_][\w\.\(\)]*)\[\.\.(?P<n>[^\]]+)\]\s*\.\s*(?P<par>par_)?iter_mut\(\)\s*(\.\s*with_min_len\([^)]*\)\s*)?\.\s*for_each\(\s*\|(?P<x>\w+)\|\s*\*(?P=x)\s*=\s*(?P<e>[^;]*?)\)\s*;'),
     'foreach_assign'),
    # S.iter_mut().for_each(|x| *x = E);
    (re.compile(r'(?P<s>[A-Za-z_][\w\.\(\)]*?)\s*\.\s*(?P<par>par_)?iter_mut\(\)\s*(\.\s*with_min_len\([^)]*\)\s*)?\.\s*for_each\(\s*\|(?P<x>\w+)\|\s*\*(?P=x)\s*=\s*(?P<e>[^;]*?)\)\s*;'),
     'foreach_assign_all'),
    # [let mut] ACC = S[..N].iter().map(|x| E as usize).sum();
    (re.compile(r'(?P<lhs>(let\s+mut\s+|let\s+)?\w+)\s*=\s*(?P<s>[A-Za-z_][\w\.\(\)]*)\[\.\.(?P<n>[^\]]+)\]\s*\.\s*(?P<par>par_)?iter\(\)\s*(\.\s*with_min_len\([^)]*\)\s*)?\.\s*map\(\s*\|(?P<x>\w+)\|\s*(?P<e>[^;]*?)\)\s*\.\s*sum\(\)\s*;'),
     'map_sum'),
]


STEP_BY = re.compile(r"\bfor\s+(?P<x>\w+)\s+in\s+\(\s*(?P<a>[\w:]+)\s*\.\.\s*(?P<b>[\w:.]+)\s*\)\s*\.\s*step_by\(\s*(?P<s>[\w:]+)\s*\)\s*\{")


def rule_r6_step_by(text, fired):
    """for X in (A..B).step_by(S) { BODY }  ->  { let mut X: usize = A; while X < B { BODY if B - X <= S { break; } X += S; } }
    (A, B, S side-effect free paths/literals; BODY without `continue`)."""
    while True:
        code = blank_noncode(text)
        m = STEP_BY.search(code)
        if not m:
            return text
        ob = m.end() - 1
        cb = match_close(code, ob)
        body = code[ob + 1:cb]
        if re.search(r'\bcontinue\b', body):
            raise Unsupported('R6 step_by: loop body contains `continue`')
        x, a, b, st = m.group('x'), m.group('a'), m.group('b'), m.group('s')
        tail = ' if %s - %s <= %s { break; } %s += %s; } }' % (b, x, st, x, st)
        text = text[:cb] + tail + text[cb + 1:]
        text = splice(text, m.start(), m.end(), '{ let mut %s: usize = %s; while %s < %s {' % (x, a, x, b))
        fired['R6'] = fired.get('R6', 0) + 1


ENUMERATE = re.compile(r"\bfor\s+\(\s*(?P<i>\w+)\s*,\s*(?P<c>\w+)\s*\)\s+in\s+(?P<s>(?:\w|\.|\(\))+?)\s*\.\s*iter\(\)\s*(?P<cp>\.\s*copied\(\)\s*)?\.\s*enumerate\(\)\s*\{")


def rule_r6_enumerate(text, fired):
    """for (I, C) in S.iter().enumerate() { BODY }  ->  { let mut I: usize = 0; while I < S.len() { let C = &S[I]; BODY I += 1; } }
    (BODY without `continue`); with `.iter().copied().enumerate()` the element is bound by value (`let C = S[I];`)."""
    while True:
        code = blank_noncode(text)
        m = ENUMERATE.search(code)
        if not m:
            return text
        ob = m.end() - 1
        cb = match_close(code, ob)
        if re.search(r'\bcontinue\b', code[ob + 1:cb]):
            raise Unsupported('R6 enumerate: loop body contains `continue`')
        i, c, sq = m.group('i'), m.group('c'), m.group('s')
        text = text[:cb] + ' %s += 1; } }' % i + text[cb + 1:]
        amp = '' if m.group('cp') else '&'
        text = splice(text, m.start(), m.end(), '{ let mut %s: usize = 0; while %s < %s.len() { let %s = %s%s[%s];' % (i, i, sq, c, amp, sq, i))
        fired['R6'] = fired.get('R6', 0) + 1


FOR_REF = re.compile(r"\bfor\s+&(?P<c>\w+)\s+in\s+(?P<s>\w+)\s*\{")


def rule_r6_for_ref(text, fired):
    """for &C in S { BODY }  ->  { let mut r6_kN: usize = 0; while r6_kN < S.len() { let C = S[r6_kN]; BODY r6_kN += 1; } }
    (S a plain identifier naming a slice; BODY without `continue`)."""
    n = 0
    while True:
        code = blank_noncode(text)
        m = FOR_REF.search(code)
        if not m:
            return text
        ob = m.end() - 1
        cb = match_close(code, ob)
        if re.search(r'\bcontinue\b', code[ob + 1:cb]):
            raise Unsupported('R6 for-ref: loop body contains `continue`')
        c, sq = m.group('c'), m.group('s')
        i = 'r6_k%d' % n
        n += 1
        text = text[:cb] + ' %s += 1; } }' % i + text[cb + 1:]
        text = splice(text, m.start(), m.end(), '{ let mut %s: usize = 0; while %s < %s.len() { let %s = %s[%s];' % (i, i, sq, c, sq, i))
        fired['R6'] = fired.get('R6', 0) + 1


def rule_r8_anon_loop_var(text, fired):
    """for _ in A..B  ->  for anon_i in A..B  (naming the anonymous loop variable so that invariants can mention it)"""
    code = blank_noncode(text)
    out = []
    last = 0
    for m in re.finditer(r'\bfor\s+_\s+in\b', code):
        out.append(text[last:m.start()])
        out.append('for anon_i in')
        last = m.end()
        fired['R8'] = fired.get('R8', 0) + 1
    out.append(text[last:])
    return ''.join(out)


def rule_r6_idioms(text, fired):
    text = rule_r8_anon_loop_var(text, fired)
    text = rule_r6_step_by(text, fired)
    text = rule_r6_enumerate(text, fired)
    text = rule_r6_for_ref(text, fired)
    changed = True
    while changed:
        changed = False
        code = blank_noncode(text)
        for pat, kind in R6_PATTERNS:
            m = pat.search(code)
            if not m:
                continue
            g = {k: (text[m.start(k):m.end(k)] if m.start(k) >= 0 else None) for k in pat.groupindex}
            idx = 'r6_i'
            if kind in ('foreach_assign', 'foreach_assign_all'):
                s = norm_ws(g['s'])
                n = norm_ws(g['n']) if kind == 'foreach_assign' else s + '.len()'
                x = g['x']
                e = norm_ws(g['e'])
                e = re.sub(r'\*\s*' + x + r'\b', '%s[%s]' % (s, idx), e)
                if re.search(r'\b' + x + r'\b', e):
                    raise Unsupported('R6: closure parameter used other than as *%s' % x)
                new = ('{ let mut %s: usize = 0; while %s < %s { %s[%s] = %s; %s += 1; } }'
                       % (idx, idx, n, s, idx, e, idx))
            else:
                s = norm_ws(g['s'])
                n = norm_ws(g['n'])
                x = g['x']
                e = norm_ws(g['e'])
                e = re.sub(r'\b' + x + r'\b', '%s[%s]' % (s, idx), e)
                lhs = norm_ws(g['lhs'])
                if lhs.startswith('let'):
                    decl = lhs + ': usize = 0;'
                    acc = lhs.split()[-1]
                else:
                    decl = lhs + ' = 0;'
                    acc = lhs
                new = ('%s { let mut %s: usize = 0; while %s < %s { %s = %s + (%s); %s += 1; } }'
                       % (decl, idx, idx, n, acc, acc, e, idx))
            if g.get('par'):
                fired['R6par'] = fired.get('R6par', 0) + 1
            text = splice(text, m.start(), m.end(), new)
            fired['R6'] = fired.get('R6', 0) + 1
            changed = True
            break
    return text


def apply_substs(text, substs, fired, tag='R1'):
    for pat, repl in substs:
        def f(m):
            fired[tag] = fired.get(tag, 0) + 1
            return _keep_nl(m.group(0), m.expand(repl))
        text = re.sub(pat, f, text)
    return text


def rule_r11_bind_closure(text, fired, methods):
    """R11: `recv.m(|args| body)` -> `recv.m({ let r11_clos = |args| body; r11_clos })` for the declared methods m:
    the closure argument gets a name, so that proof text can speak about its contract (call_ensures) before the call.
    The value passed is unchanged."""
    for m in methods:
        pos = 0
        while True:
            mm = re.search(r'\.\s*' + re.escape(m) + r'\s*\(\s*(?=\|)', text[pos:])
            if not mm:
                break
            a = pos + mm.end()
            depth = 0
            k = a
            while k < len(text):
                ch = text[k]
                if ch in '([{':
                    depth += 1
                elif ch in ')]}':
                    if depth == 0:
                        break
                    depth -= 1
                k += 1
            if k >= len(text):
                raise Unsupported('R11: unbalanced call of %s' % m)
            arg = text[a:k]
            new = '{ let r11_clos = ' + arg.rstrip() + '; r11_clos }'
            text = text[:a] + new + text[k:]
            fired['R11'] = fired.get('R11', 0) + 1
            pos = a + len(new)
    return text


def rule_r10_mut_self(text, fired):
    """R10: fn f(mut self, ..) { .. self .. }  ->  fn f(self, ..) { let mut this = self; .. this .. }  (alpha-renaming)"""
    code = blank_noncode(text)
    m = re.search(r'\(\s*mut\s+self\b', code)
    if not m:
        return text
    # body start
    depth = 0
    ob = None
    for i, ch in enumerate(code):
        if ch in '([':
            depth += 1
        elif ch in ')]':
            depth -= 1
        elif ch == '{' and depth == 0:
            ob = i
            break
    if ob is None or m.start() > ob:
        return text
    body = text[ob + 1:]
    bcode = code[ob + 1:]
    out = []
    last = 0
    for mm in re.finditer(r'\bself\b', bcode):
        out.append(body[last:mm.start()])
        out.append('this')
        last = mm.end()
    out.append(body[last:])
    sig = text[:ob]
    sig = sig[:m.start()] + re.sub(r'mut\s+self', 'self', sig[m.start():], count=1)
    fired['R10'] = fired.get('R10', 0) + 1
    return sig + '{ let mut this = self;' + ''.join(out)
