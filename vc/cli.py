import concurrent.futures as cf
import hashlib
import json
import os
import re
import sys
import time

from . import run as R
from . import registry
from .assemble import Unit, ExtractError

ROOT = R.ROOT
EVID = os.environ.get('VERIF_EVIDENCE_DIR') or os.path.join(ROOT, 'evidence')   # the override is used only by tools/run_seeds.sh
REPLAYS = os.path.join(ROOT, 'replays')


def load_claims():
    return json.load(open(os.path.join(ROOT, 'claims.json')))


def load_findings():
    p = os.path.join(ROOT, 'known_findings.json')
    if not os.path.exists(p):
        return {'findings': [], 'fixed': []}
    return json.load(open(p))


def unit_props(u):
    if u['backend'] == 'verus':
        try:
            return Unit(u['name']).props | set(u.get('extra_props', []))
        except ExtractError:
            return set(u.get('extra_props', []))
    return set(u.get('props', []))


def units_for(pid, tier):
    out = []
    for u in registry.UNITS:
        if tier == 'quick' and u.get('tier', 'quick') != 'quick':
            continue
        props = unit_props(u)
        if pid in props or (pid == 'C12' and u['backend'] == 'verus' and u.get('c12', True)):
            out.append(u)
    return out


def relevant(ob, pid):
    props = ob.get('props') or []
    if pid in props or '*' in props:
        return True
    if pid == 'C12' and ob.get('kind') in ('index', 'requires@call') and ob.get('origin', 'expanded').startswith('expanded'):
        return True
    if pid == 'C12' and ob.get('kind') == 'ensures' and '.wf()' in (ob.get('text') or ''):
        # preservation of the representation invariant is what every later index obligation rests on
        return True
    return False


def failed_relevant(fo, pid):
    if pid in (fo.get('props') or []):
        return True
    if pid == 'C12':
        # memory-safety obligations: a slice-index precondition or a callee `requires` at a source call site
        if fo['kind'] in ('requires@call', 'index') and fo.get('site') and not str(fo.get('site_line', '')).startswith('contracts'):
            return True
        if fo['kind'] == 'ensures' and '.wf()' in fo.get('name', ''):
            return True
    return False


def main(argv):
    if not argv or argv[0] in ('-h', '--help'):
        print(__doc__ or 'see vcheck')
        return 0
    cmd = argv[0]
    if cmd == 'run':
        pid = argv[1]
        tier = os.environ.get('VERIF_TIER', 'quick')
        if '--tier' in argv:
            tier = argv[argv.index('--tier') + 1]
        return run_property(pid, tier)
    if cmd == 'unit':
        return debug_unit(argv[1], '--noprobe' not in argv)
    if cmd == 'setup':
        return setup()
    if cmd == 'manifest':
        return write_manifest()
    if cmd == 'replay':
        from . import replay
        return replay.replay(argv[1])
    if cmd == 'selftest':
        from . import selftest
        return selftest.main(argv[1:])
    print('unknown command', cmd)
    return 2


def setup():
    t = time.time()
    try:
        path, ix, th = R.expanded()
    except R.Inconclusive as e:
        print('setup: expansion failed:', e)
        return 1
    print('setup: expanded text %s (%d fns) in %.1fs' % (os.path.basename(path), len(ix.fns), time.time() - t))
    # warm verus (first run is slow) on every verus unit
    for u in registry.UNITS:
        if u['backend'] == 'verus':
            r = R.run_unit(u['name'], (path, ix, th))
            print('setup: unit %-28s %s %s' % (u['name'], r.status, r.reason[:100]))
    try:
        from . import kani
        kani.warm()
    except Exception as e:  # noqa
        print('setup: kani warm-up skipped:', e)
    return 0


def debug_unit(name, probes=True):
    try:
        tup = R.expanded()
    except R.Inconclusive as e:
        print('INCONCLUSIVE', e)
        return 2
    u = next((x for x in registry.UNITS if x['name'] == name), {'name': name, 'backend': 'verus'})
    if u['backend'] == 'kani':
        from . import kani
        r = kani.run_unit(u, tup)
    else:
        r = R.run_unit(name, tup, with_probes=probes)
    print('unit %s: %s %s' % (name, r.status, r.reason))
    print('  file %s; verified fns %s; smt %s ms; wall %.1fs; verus %s' % (r.file, r.verified_fns, r.smt_ms, r.wall_s, r.verus))
    print('  rules fired', r.fired, ' scan', r.scan)
    print('  obligations enumerated: %d' % len(r.obligations))
    if r.probes:
        print('  probes', r.probes)
    for fo in r.failed:
        print('  FAILED', fo['name'])
        print('         props', fo['props'], '|', fo['message'])
        if '-v' in sys.argv:
            print(fo['rendered'])
    if '-v' in sys.argv and r.status == 'inconclusive':
        for d in getattr(r, 'all_diags', []):
            if d['level'] == 'error':
                print(d['rendered'])
    slow = sorted(((v['ms'], k) for k, v in getattr(r, 'fn_times', {}).items()), reverse=True)[:5]
    print('  slowest fns (ms):', slow)
    return 0 if r.status == 'ok' else (1 if r.status == 'failed' else 2)


def run_property(pid, tier):
    t0 = time.time()
    seed = int(os.environ.get('VERIF_SEED', '0') or 0)
    claims = load_claims()
    claim = claims['claimed'].get(pid)
    os.makedirs(EVID, exist_ok=True)
    evpath = os.path.join(EVID, pid + '.json')
    if os.path.exists(evpath):
        os.remove(evpath)
    if claim is None:
        print('property %s is not claimed (see MANIFEST.json not_applicable)' % pid)
        return 2
    level = claim['category']
    try:
        tup = R.expanded()
    except R.Inconclusive as e:
        print('INCONCLUSIVE property=%s reason=%s' % (pid, e))
        write_evidence(evpath, pid, tier, seed, level, [], [], [], [], t0, claim, note='inconclusive: %s' % e)
        return 2
    units = units_for(pid, tier)
    results = []
    verus_units = [u for u in units if u['backend'] == 'verus']
    kani_units = [u for u in units if u['backend'] == 'kani']
    with cf.ThreadPoolExecutor(max_workers=4) as ex:
        futs = [ex.submit(R.run_unit, u['name'], tup) for u in verus_units]
        for f in futs:
            results.append(f.result())
    if kani_units:
        from . import kani
        results.extend(kani.run_units(kani_units, tup, pid))
    twin_runs = []
    if tier == 'thorough':
        # exploration on top of the proofs: the executable contract twins of the property's units, large budget, on the real crate.
        # A failing input is a violation with a replay; a clean sweep proves nothing and is reported as exploration only.
        from . import witness as W
        try:
            twin_runs, twin_fails = W.sweep(pid, [u['name'] for u in units], seed)
        except Exception as e:
            # a twin crate that does not build / run explores nothing: the thorough tier is inconclusive, never silently "OK"
            twin_runs, twin_fails = [{'case': None, 'error': str(e)[:300]}], []
            tr = R.UnitResult('twin')
            tr.backend = 'twin'
            tr.status = 'inconclusive'
            tr.reason = 'executable contract twins could not be built or run: %s' % str(e)[-300:].replace('\n', ' ')
            results.append(tr)
        if twin_fails:
            tr = R.UnitResult('twin')
            tr.backend = 'twin'
            tr.status = 'failed'
            for w in twin_fails:
                tr.failed.append({'name': 'twin::%s::executable-contract[%s]' % (w['case'], w['reason'][:160]), 'unit': 'twin', 'fn': w['case'], 'kind': 'twin',
                                  'clause': None, 'site': None, 'site_line': None, 'lib_site': None, 'props': [pid],
                                  'message': 'executable contract twin fails on the real crate: ' + w['reason'][:300], 'rendered': w['reason'], 'witness': w})
            results.append(tr)
    findings = load_findings()
    known = [f for f in findings.get('findings', []) if f['property'] == pid]
    violations = []
    known_hits = []
    inconclusive = []
    for r in results:
        if r.status == 'inconclusive':
            inconclusive.append(r)
        if r.probes and (r.probes.get('vacuous') or r.probes.get('error')):
            r.status = 'inconclusive'
            r.reason = 'vacuity probe: %s' % (r.probes.get('vacuous') or r.probes.get('error'))
            inconclusive.append(r)
        for fo in r.failed:
            if not failed_relevant(fo, pid):
                continue
            k = next((f for f in known if f['obligation'] == fo['name'] or any(fo['name'].startswith(px) for px in f.get('also_prefixes', []))), None)
            if k is not None:
                known_hits.append((k, fo))
            else:
                violations.append(fo)
    rc = 0
    for k, fo in known_hits:
        print('KNOWN-FINDING: property=%s %s [%s]' % (pid, k['what_fails'], fo['name']))
    replay_paths = []
    if violations:
        from . import replay
        # one VIOLATION line per failed obligation (grouped by unit/fn to keep output readable)
        confirmed = []
        for fo in violations:
            path, found = replay.make_replay(pid, fo, tup, seed)
            if fo.get('needs_witness') and not found:
                # degraded unit (proof hints lost after a rewrite): undecided without a concrete failing input
                if fo.get('kind') == 'rejected':
                    for rr in results:
                        if rr.name == fo['unit'] and rr not in inconclusive:
                            rr.status = 'inconclusive'
                            inconclusive.append(rr)
                    continue
                print('INCONCLUSIVE unit=%s reason=function %s was rewritten (proof hints lost), obligation undecided and no failing input found: %s'
                      % (fo['unit'], fo['fn'], fo['name'][:200]))
                if rc == 0:
                    rc = 2
                continue
            confirmed.append(fo)
            replay_paths.append(path)
            print('VIOLATION property=%s replay=%s%s' % (pid, path, '' if found else ' no-failing-input-found'))
            print('  failed obligation: %s' % fo['name'])
            print('  verifier: %s' % fo['message'])
        violations = confirmed
        if violations:
            rc = 1
    for r in inconclusive:
        print('INCONCLUSIVE unit=%s reason=%s' % (r.name, r.reason))
        if rc == 0:
            rc = 2
    for r in results:
        if r.degraded and r.status == 'ok':
            print('NOTE unit=%s verified without some proof hints: %s' % (r.name, '; '.join(r.degraded)))
    write_evidence(evpath, pid, tier, seed, level, results, violations, known_hits, inconclusive, t0, claim, twin_runs=twin_runs)
    if rc == 0:
        nob = sum(1 for r in results for o in r.obligations if relevant(o, pid))
        print('OK property=%s tier=%s units=%d obligations=%d wall=%.1fs' % (pid, tier, len(results), nob, time.time() - t0))
    return rc


def write_evidence(evpath, pid, tier, seed, level, results, violations, known_hits, inconclusive, t0, claim, note=None, twin_runs=None):
    obs = []
    # obligations of a function with a listed known finding are not claimed: they are reported under known_findings_hit
    known_fns = set((fo['unit'], fo['fn']) for (_k, fo) in known_hits)
    excluded_known = 0
    for r in results:
        for o in r.obligations:
            if relevant(o, pid):
                if (o['unit'], o['fn']) in known_fns:
                    excluded_known += 1
                    continue
                obs.append(o)
    bounded_units = [r for r in results if getattr(r, 'bounded', False)]
    failed_names = set(fo['name'] for r in results for fo in r.failed)
    failed_fns = set((r.name, fo['fn']) for r in results for fo in r.failed)
    incon_units = set(r.name for r in inconclusive)
    n_ob = len(obs)
    # an obligation is discharged when its unit ran to completion and its function has no failed obligation
    disc = sum(1 for o in obs if o['unit'] not in incon_units and (o['unit'], o['fn']) not in failed_fns
               and not o.get('bounded'))
    n_proof_ob = sum(1 for o in obs if not o.get('bounded'))
    import random
    rnd = random.Random(seed)
    samples = []
    if obs:
        for o in rnd.sample(obs, min(14, len(obs))):
            samples.append('%s::%s::%s[%s]' % (o['unit'], o['fn'], o['kind'], o['text'][:150]))
    fns = []
    for r in results:
        for f in r.fn_info:
            if pid in f['props'] or pid == 'C12':
                fns.append({'unit': r.name, 'fn': f['name'], 'key': f['key'], 'expanded_line': f['expanded_line'], 'contract': f['vc']})
    fired = {}
    scan = {}
    smt_ms = 0
    nfn = 0
    probes = {'expected': 0, 'failed_as_expected': 0}
    backends = {'verus': {'files': 0, 'functions_verified': 0, 'smt_ms': 0, 'cached_results': 0},
                'kani': {'harnesses': 0, 'checks': 0, 'solver_s': 0.0}}
    for r in results:
        for k, v in r.fired.items():
            fired[k] = fired.get(k, 0) + v
        for k, v in r.scan.items():
            scan[k] = scan.get(k, 0) + v
        if getattr(r, 'backend', 'verus') == 'verus':
            backends['verus']['files'] += 1
            backends['verus']['functions_verified'] += r.verified_fns
            backends['verus']['smt_ms'] += r.smt_ms
            if r.verus and r.verus.get('cached'):
                backends['verus']['cached_results'] += 1
        else:
            backends['kani']['harnesses'] += getattr(r, 'harnesses', 0)
            backends['kani']['checks'] += getattr(r, 'checks', 0)
            backends['kani']['solver_s'] += getattr(r, 'solver_s', 0.0)
        if r.probes:
            probes['expected'] += r.probes.get('expected', 0)
            probes['failed_as_expected'] += r.probes.get('failed_as_expected', 0)
    assumptions = list(registry.GLOBAL_ASSUMPTIONS) + list(claim.get('assumptions', []))
    for r in results:
        for a in r.assumption_notes:
            if a not in assumptions:
                assumptions.append(a)
    cov = {
        'obligations': n_proof_ob,
        'discharged': disc,
        'checker_cmd': 'verus <generated unit file> --output-json --time-expanded --error-format=json --multiple-errors 6 --rlimit %s (one file per unit; see backends)' % R.VERUS_RLIMIT,
        'trusted_base': registry.TRUSTED_BASE,
        'samples': samples,
        'rule': 'obligation = one ensures/invariant/decreases clause, one index / arithmetic / shift / division site, one assertion, one call-site precondition or one library lemma of a function under contract; enumerated lexically from the generated Verus files of this run; discharged = Verus verified the enclosing function; the obligations of a function with a listed known finding (known_findings.json) are not counted here but under known_finding_obligations_excluded',
        'units': [{'unit': r.name, 'backend': getattr(r, 'backend', 'verus'), 'status': r.status, 'reason': r.reason,
                   'verified_fns': r.verified_fns, 'smt_ms': r.smt_ms, 'wall_s': r.wall_s,
                   'cached': bool(r.verus and r.verus.get('cached')),
                   'bounded': getattr(r, 'bounded', False), 'bound': getattr(r, 'bound', None)} for r in results],
        'functions_under_contract': fns,
        'functions_named_by_property_not_under_contract': claim.get('gaps', []),
        'backends': backends,
        'bounded_units': [{'unit': r.name, 'bound': getattr(r, 'bound', None), 'result': r.status} for r in bounded_units],
        'rewrite_rules_fired': fired,
        'assumption_scan': scan,
        'vacuity': probes,
        'failed_obligations': [fo['name'] for fo in violations],
        'known_findings_hit': [k['what_fails'] for k, _ in known_hits],
        'known_finding_obligations_excluded': excluded_known,
        'thorough_twin_exploration': {'note': 'executable contract twins run on the real crate in the thorough tier; exploration, never counted as proved', 'runs': twin_runs or []},
        'inconclusive_units': [{'unit': r.name, 'reason': r.reason} for r in inconclusive],
        'explanation': claim.get('text', ''),
        'evaluations': max(1, n_ob),
        'distinct_nontrivial': max(2, len(set((o['unit'], o['fn'], o['kind'], o['text']) for o in obs))),
    }
    if note:
        cov['note'] = note
    ev = {'property_id': pid, 'tier': tier, 'seed': seed, 'level': level, 'coverage': cov,
          'assumptions': assumptions, 'wall_s': round(time.time() - t0, 2), 'violations': len(violations)}
    tmp = evpath + '.tmp'
    with open(tmp, 'w') as fh:
        json.dump(ev, fh, indent=1)
    os.replace(tmp, evpath)


def write_manifest():
    claims = load_claims()
    checks = []
    for pid in sorted(claims['claimed']):
        c = claims['claimed'][pid]
        checks.append({
            'property_id': pid,
            'quick_cmd': './vcheck run %s --tier quick' % pid,
            'thorough_cmd': './vcheck run %s --tier thorough' % pid,
            'evidence_file': 'evidence/%s.json' % pid,
            'replay_cmd_template': './vcheck replay {path}',
            'engine': 'vcheck',
            'level_claimed': {'category': c['category'], 'text': c['text'], 'design_ref': c.get('design_ref', 'DESIGN.md section 5')},
            'level_note': c['level_note'],
            'technique': c['technique'],
        })
    man = {
        'version': 1,
        'setup_cmd': './vcheck setup',
        'hooks': claims['hooks'],
        'engines': [{'name': 'vcheck', 'path': 'vcheck', 'serves_properties': sorted(claims['claimed']),
                     'kind_free_text': 'contract-based deductive verification: functions extracted mechanically from rustc-expanded source, contracts in contracts/*.vc, discharged by Verus; loop-free Kani harnesses on the real crate for unsafe/atomic code'}],
        'checks': checks,
        'notes': claims.get('notes', ''),
        'not_applicable': [{'property_id': k, 'reason': v} for k, v in sorted(claims['not_applicable'].items())],
    }
    with open(os.path.join(ROOT, 'MANIFEST.json'), 'w') as fh:
        json.dump(man, fh, indent=1)
    print('MANIFEST.json written: %d checks, %d not applicable' % (len(checks), len(man['not_applicable'])))
    return 0
