"""Replay files and witness search (DESIGN.md 3.8).  Filled in incrementally."""
import json
import os
import re
import time

from . import run as R

ROOT = R.ROOT
REPLAYS = os.path.join(ROOT, 'replays')


def make_replay(pid, fo, tup, seed):
    """write replays/<pid>/<obligation>.json; returns (path, found_failing_input)"""
    d = os.path.join(REPLAYS, pid)
    os.makedirs(d, exist_ok=True)
    slug = re.sub(r'[^A-Za-z0-9_.]+', '_', '%s__%s__%s' % (fo['unit'], fo['fn'], fo['kind']))[:80]
    import hashlib
    slug += '_' + hashlib.sha1(fo['name'].encode()).hexdigest()[:8]
    path = os.path.join(d, slug + '.json')
    witness = None
    try:
        from . import witness as W
        witness = fo.get('witness') or W.search(pid, fo, seed)
    except ImportError:
        witness = None
    except Exception as e:  # witness search never decides anything
        witness = {'error': 'witness search failed: %s' % e}
    found = bool(witness and witness.get('found'))
    rec = {'property': pid, 'obligation': fo['name'], 'unit': fo['unit'], 'function': fo['fn'], 'kind': fo['kind'],
           'clause': fo.get('clause'), 'site': fo.get('site'), 'expanded_line': fo.get('site_line'),
           'verifier_message': fo['message'], 'verifier_output': fo['rendered'],
           'failing_input_found': found, 'witness': witness,
           'tree_hash': tup[2], 'generated_at': time.strftime('%Y-%m-%dT%H:%M:%S')}
    with open(path, 'w') as fh:
        json.dump(rec, fh, indent=1)
    return os.path.relpath(path, ROOT), found


def replay(path):
    p = path if os.path.isabs(path) else os.path.join(ROOT, path)
    rec = json.load(open(p))
    print('replay of %s' % rec['obligation'])
    # 1. does the obligation still fail on the current working tree?
    tup = R.expanded()
    u = rec['unit']
    from . import registry
    ud = next((x for x in registry.UNITS if x['name'] == u), None)
    if u == 'twin':
        # thorough-tier exploration by an executable contract twin: only the witness is replayed
        w = rec.get('witness') or {}
        from . import witness as W
        ok = bool(w.get('found')) and W.rerun(w)
        print('twin %s: %s' % (w.get('case'), 'REPRODUCES against the real crate' if ok else 'does not reproduce'))
        return 1 if ok else 0
    if ud is not None and ud['backend'] == 'kani':
        from . import kani
        r = kani.run_unit(ud, tup)
    else:
        r = R.run_unit(u, tup, with_probes=False)
    still = any(fo['name'] == rec['obligation'] for fo in r.failed)
    print('obligation %s on the current tree (unit status %s)' % ('FAILS' if still else 'does not fail', r.status))
    rc = 1 if still else 0
    w = rec.get('witness')
    if w and w.get('found'):
        from . import witness as W
        ok = W.rerun(w)
        print('witness %s: %s' % (w.get('case'), 'REPRODUCES against the real crate' if ok else 'does not reproduce'))
        if ok:
            rc = 1
    else:
        print('no failing input recorded (no-failing-input-found); verifier output follows')
        print(rec['verifier_output'])
    return rc
