"""Witness search on the real crate (DESIGN.md 3.8): executable contract twins in /verif/witness.
Used only after an obligation failed; never decides a property."""
import json
import os
import re
import shutil
import subprocess
import time

from . import run as R

ROOT = R.ROOT
import hashlib as _hl
_sfx = '' if os.path.abspath(R.REPO) == '/repo' else '-' + _hl.sha1(os.path.abspath(R.REPO).encode()).hexdigest()[:8]
WCRATE = os.path.join(R.CACHE, 'witness-crate' + _sfx)
WTARGET = os.path.join(R.CACHE, 'witness-target' + _sfx)

# (unit regex, fn regex) -> witness cases to try, in order
CASES = [
    (r'k\.atomic', r'.*', ['atomic']),
    (r'k\.atomic_bv', r'.*', ['bitvec_stale', 'bitvec_ops']),
    (r'select(_small|_zero_small)\.lookup.*', r'.*', ['select_all', 'select_inv', 'select_big']),
    (r'select_(zero_)?small\.complete.*', r'.*', ['select_all']),
    (r'select9?\.lookup.*|select\.phase2.*', r'.*', ['select_all', 'select_inv']),
    (r'k\.select_(zero_)?small_complete|select\..*', r'.*', ['select_all']),
    (r'k\.bfv_unaligned', r'.*', ['bfv_unaligned']),
    (r'k\.bfv_apply', r'.*', ['bfv_apply']),
    (r'k\.rank_small.*', r'.*', ['rank_all']),
    (r'(k\.)?rcl.*', r'.*', ['rcl']),
    (r'ef\.builder', r'(push|push_unchecked|build)', ['ef_builder', 'ef_seq']),
    (r'ef\.builder', r'.*', ['ef_seq', 'ef_builder', 'ef_dict']),
    (r'ef\.iter', r'.*', ['ef_seq']),
    (r'k\.ef_concurrent', r'.*', ['ef_builder']),
    (r'ef\.scan', r'(EliasFanoIterator.*|iter|iter_from|into_iter|len)', ['ef_seq', 'ef_dict']),
    (r'ef\.scan', r'.*', ['ef_dict', 'ef_seq']),
    (r'ef\.(guards|dict).*', r'.*', ['ef_dict']),
    (r'vfilter\..*', r'.*', ['vfilter']),
    (r'vbuilder\..*', r'.*', ['vfilter', 'vfunc']),
    (r'vfunc\.get', r'.*', ['vfunc']),
    (r'(shard_edge|k\.setup_graphs|k\.sig_high_bits)', r'.*', ['shard_edge']),
    (r'lenders\.take', r'.*', ['lenders_take']),
    (r'lenders\..*', r'.*', ['lenders', 'lenders_selfcons']),
    (r'rank9', r'.*', ['rank9']),
    (r'rank_small.*', r'.*', ['rank_all']),
    (r'bf[vs]\.copy.*', r'.*', ['bfv_copy']),
    (r'bfv\.unaligned.*', r'.*', ['bfv_unaligned']),
    (r'bfv\.apply.*', r'.*', ['bfv_apply']),
    (r'bfv\..*', r'.*', ['bfv_ops', 'bfv_copy', 'bfv_misc']),
    (r'bitvec\.iter', r'.*', ['bitvec_iter_ones', 'bitvec_iter_zeros', 'bitvec_ops']),
    (r'bitvec\.core', r'(count_ones|eq|fill|flip|reset)', ['bitvec_stale', 'bitvec_ops']),
    (r'bitvec\.core', r'.*', ['bitvec_ops', 'bitvec_stale']),
]


def build(repo=None):
    repo = repo or R.REPO
    os.makedirs(WCRATE, exist_ok=True)
    src = os.path.join(ROOT, 'witness')
    if os.path.exists(os.path.join(WCRATE, 'src')):
        shutil.rmtree(os.path.join(WCRATE, 'src'))
    shutil.copytree(os.path.join(src, 'src'), os.path.join(WCRATE, 'src'))
    toml = open(os.path.join(src, 'Cargo.toml.in')).read().replace('@REPO@', os.path.abspath(repo))
    with open(os.path.join(WCRATE, 'Cargo.toml'), 'w') as fh:
        fh.write(toml)
    lock = os.path.join(repo, 'Cargo.lock')
    if os.path.exists(lock):
        shutil.copy(lock, os.path.join(WCRATE, 'Cargo.lock'))
    env = dict(os.environ)
    env['CARGO_NET_OFFLINE'] = 'true'
    env['CARGO_TARGET_DIR'] = WTARGET
    r = subprocess.run(['cargo', 'build', '--offline', '--manifest-path', os.path.join(WCRATE, 'Cargo.toml')],
                       stdout=subprocess.PIPE, stderr=subprocess.PIPE, text=True, env=env, timeout=1500)
    if r.returncode != 0:
        raise RuntimeError('witness crate does not build: ' + r.stderr[-1500:])
    return os.path.join(WTARGET, 'debug', 'sux-witness')


def _run(binpath, args, timeout, env=None):
    try:
        r = subprocess.run([binpath] + args, stdout=subprocess.PIPE, stderr=subprocess.PIPE, text=True, timeout=timeout, env=env)
        return r.returncode, r.stdout, r.stderr
    except subprocess.TimeoutExpired as e:
        out = e.stdout.decode(errors='replace') if isinstance(e.stdout, bytes) else (e.stdout or '')
        return -99, out, 'timeout'


def _parse(rc, out, err):
    last_try = None
    for ln in out.split('\n'):
        if ln.startswith('FAIL '):
            m = re.match(r'FAIL (\S+) (.*?) :: (.*)$', ln)
            return {'found': True, 'case': m.group(1), 'input': m.group(2), 'reason': m.group(3)}
        if ln.startswith('TRY '):
            last_try = ln
    if rc not in (0, 3, -99) and last_try:
        m = re.match(r'TRY (\S+) (.*)$', last_try)
        return {'found': True, 'case': m.group(1), 'input': m.group(2),
                'reason': 'process died with status %s (debug UB check / signal): %s' % (rc, err.strip().split('\n')[-1][:300])}
    return None


def search(pid, fo, seed, budget=3000):
    cases = []
    for ure, fre, cs in CASES:
        if re.fullmatch(ure, fo['unit']) and re.fullmatch(fre, fo['fn'] or ''):
            cases = cs
            break
    if not cases:
        return {'found': False, 'note': 'no executable contract twin for this unit'}
    t = time.time()
    binpath = build()
    tried = []
    for c in cases:
        rc, out, err = _run(binpath, ['search', c, str(seed), str(budget)], 240)
        w = _parse(rc, out, err)
        tried.append(c)
        if w:
            w['cmd'] = 'sux-witness one %s %s' % (w['case'], w['input'])
            w['search_s'] = round(time.time() - t, 1)
            return w
    return {'found': False, 'cases_tried': tried, 'search_s': round(time.time() - t, 1)}


def rerun(w):
    binpath = build()
    rc, out, err = _run(binpath, ['one', w['case'], w['input']], 120)
    r = _parse(rc, out, err)
    if r:
        print('  %s' % r['reason'])
    return bool(r)


# thorough tier: property-level twins run as an exploration on top of the proofs (never counted as proved)
PROP_TWINS = {
    'C01': ['select_all', 'select_big'],
    'C02': ['select_all', 'select_inv', 'select_big'],
    'C03': ['ef_big'],
    'C04': ['ef_dict', 'ef_big'],
    'C08': ['vfilter', 'vfunc'],
    'C11': ['shard_edge', 'vfunc'],
    'C16': ['shard_edge', 'vfunc', 'vfilter'],
    'C05': ['bfv_misc'],
    'C20': ['lenders', 'lenders_selfcons', 'lenders_take'],
    'C06': ['bitvec_ops', 'bitvec_stale'],
    'C10': ['bfv_chunks', 'bfv_apply'],
    'C14': ['bfv_chunks', 'bfv_apply'],
}


def cases_for_units(unit_names):
    out = []
    for un in unit_names:
        for ure, _fre, cs in CASES:
            if re.fullmatch(ure, un):
                for c in cs:
                    if c not in out:
                        out.append(c)
    return out


def sweep(pid, unit_names, seed, budget=6000, per_case_timeout=900):
    """run every twin mapped to the property's units (and the property-level twins) with a large budget.
    returns (runs, failures): runs = [{'case', 'trials', 'seconds'}], failures = [witness dicts]"""
    cases = cases_for_units(unit_names)
    for c in PROP_TWINS.get(pid, []):
        if c not in cases:
            cases.append(c)
    runs, fails = [], []
    if not cases:
        return runs, fails
    binpath = build()
    for c in cases:
        t = time.time()
        env = dict(os.environ)
        env['WITNESS_MAX_FAILS'] = '12'   # collect several failing inputs: one with a distinct reason per report
        rc, out, err = _run(binpath, ['search', c, str(seed), str(budget)], per_case_timeout, env=env)
        m = re.search(r'DONE trials=(\d+) fails=(\d+)', out)
        runs.append({'case': c, 'trials': int(m.group(1)) if m else None, 'seconds': round(time.time() - t, 1),
                     'timed_out': rc == -99})
        seen = set()
        for ln in out.split('\n'):
            mm = re.match(r'FAIL (\S+) (.*?) :: (.*)$', ln)
            if mm:
                key = re.sub(r'\d+', '#', mm.group(3))[:80]
                if key in seen:
                    continue
                seen.add(key)
                fails.append({'found': True, 'case': mm.group(1), 'input': mm.group(2), 'reason': mm.group(3),
                              'cmd': 'sux-witness one %s %s' % (mm.group(1), mm.group(2))})
        if not seen:
            w = _parse(rc, out, err)   # process death: the last TRY is the witness
            if w:
                w['cmd'] = 'sux-witness one %s %s' % (w['case'], w['input'])
                fails.append(w)
    return runs, fails
