"""Minimal lexical scanner / item index for rustc's `-Zunpretty=expanded` output.

Nothing here understands Rust semantics; it only
  * blanks out comments, string and char literals (keeping offsets and newlines), so that
    brace matching is reliable;
  * walks `mod`, `impl`, `trait` blocks and records every `fn` item with the key
    (module path, normalised impl/trait header, fn name), the signature text and the
    body text exactly as printed by rustc.

Function bodies are never produced by this module: they are only *located*.
"""
import re

IDENT = r'[A-Za-z_][A-Za-z0-9_]*'


def blank_noncode(src):
    """Return a string of the same length where comments, string literals and char
    literals are replaced by spaces (newlines kept).  Lifetimes are left alone."""
    out = list(src)
    n = len(src)
    i = 0

    def blank(a, b):
        for k in range(a, b):
            if out[k] != '\n':
                out[k] = ' '

    while i < n:
        c = src[i]
        if c == '/' and i + 1 < n and src[i + 1] == '/':
            j = src.find('\n', i)
            if j < 0:
                j = n
            blank(i, j)
            i = j
        elif c == '/' and i + 1 < n and src[i + 1] == '*':
            depth = 1
            j = i + 2
            while j < n and depth:
                if src.startswith('/*', j):
                    depth += 1
                    j += 2
                elif src.startswith('*/', j):
                    depth -= 1
                    j += 2
                else:
                    j += 1
            blank(i, j)
            i = j
        elif c == '"' or (c in 'br' and _raw_or_byte_string_at(src, i)):
            j = _skip_string(src, i)
            # keep the delimiters' first/last char blank too: whole literal disappears
            blank(i, j)
            i = j
        elif c == "'":
            # char literal or lifetime
            m = re.match(r"'(\\x[0-9a-fA-F]{2}|\\u\{[0-9a-fA-F_]+\}|\\.|[^\\'])'", src[i:i + 14])
            if m:
                blank(i, i + m.end())
                i += m.end()
            else:
                i += 1
        else:
            i += 1
    return ''.join(out)


def _raw_or_byte_string_at(src, i):
    # b"..", r"..", r#".."#, br".." , b'x' is handled as char by the caller falling through
    if i > 0 and (src[i - 1].isalnum() or src[i - 1] == '_'):
        return False
    m = re.match(r'(b?r#*"|b")', src[i:i + 12])
    return bool(m)


def _skip_string(src, i):
    n = len(src)
    m = re.match(r'(b?)(r(#*))?"', src[i:i + 12])
    if m and m.group(2):
        hashes = m.group(3)
        end = '"' + hashes
        j = src.find(end, i + m.end())
        return n if j < 0 else j + len(end)
    j = i + (m.end() if m else 1)
    while j < n:
        if src[j] == '\\':
            j += 2
        elif src[j] == '"':
            return j + 1
        else:
            j += 1
    return n


def match_close(code, i, open_ch='{', close_ch='}'):
    """`code` is blanked text, code[i] == open_ch; return index of the matching close."""
    depth = 0
    n = len(code)
    j = i
    while j < n:
        ch = code[j]
        if ch == open_ch:
            depth += 1
        elif ch == close_ch:
            depth -= 1
            if depth == 0:
                return j
        j += 1
    raise ValueError('unbalanced %s at %d' % (open_ch, i))


def norm_ws(s):
    return re.sub(r'\s+', ' ', s).strip()


class Fn:
    __slots__ = ('module', 'header', 'name', 'sig', 'body', 'sig_start', 'body_start',
                 'body_end', 'line', 'in_macro')

    def key(self):
        return '%s | %s | %s' % (self.module, self.header, self.name)


class Item:
    __slots__ = ('module', 'kind', 'name', 'text', 'line')


ITEM_RE = re.compile(
    r'(?P<vis>pub(\s*\([^)]*\))?\s+)?(?P<quals>((default|const|async|unsafe|extern\s*"[^"]*"|extern)\s+)*)'
    r'(?P<kw>mod|impl|trait|fn|struct|enum|union|const|static|type|use|macro_rules!|macro)\b')


class Index:
    """Index of the expanded crate text."""

    def __init__(self, src):
        self.src = src
        self.code = blank_noncode(src)
        self.fns = []
        self.items = []
        # line starts for offset -> line
        self._ls = [0]
        for m in re.finditer('\n', src):
            self._ls.append(m.end())
        self._walk(0, len(src), [], '', False)

    def line_of(self, off):
        import bisect
        return bisect.bisect_right(self._ls, off)

    # -- walking -----------------------------------------------------------------
    def _walk(self, a, b, modpath, header, in_macro):
        code = self.code
        i = a
        while i < b:
            ch = code[i]
            if ch.isspace() or ch == ';':
                i += 1
                continue
            if ch == '#':
                # attribute: #[...] or #![...]
                j = i + 1
                if j < b and code[j] == '!':
                    j += 1
                if j < b and code[j] == '[':
                    i = match_close(code, j, '[', ']') + 1
                    continue
                i += 1
                continue
            m = ITEM_RE.match(code, i)
            if not m or m.start() != i:
                # unknown token at item level (e.g. inside trait body: associated consts
                # handled below by kw; otherwise skip to next ; or balanced block)
                i = self._skip_item(i, b)
                continue
            kw = m.group('kw')
            if kw == 'mod':
                mm = re.compile(r'\s*(' + IDENT + r')\s*([{;])').match(code, m.end())
                if mm and mm.group(2) == '{':
                    close = match_close(code, mm.end() - 1)
                    self._walk(mm.end(), close, modpath + [mm.group(1)], '', in_macro)
                    i = close + 1
                else:
                    i = self._skip_item(i, b)
            elif kw in ('impl', 'trait'):
                # header runs to the first '{' at angle/paren depth 0
                ob = self._find_block_open(m.start(), b)
                if ob is None:
                    i = self._skip_item(i, b)
                    continue
                hdr = norm_ws(self.src[m.start():ob])
                close = match_close(code, ob)
                self._walk(ob + 1, close, modpath, hdr, in_macro)
                i = close + 1
            elif kw == 'fn':
                i = self._record_fn(m.start(), m.end(), b, modpath, header, in_macro)
            elif kw in ('macro_rules!', 'macro'):
                # skip definition entirely (bodies contain $vars)
                ob = self._find_any_open(m.end(), b)
                if ob is None:
                    i = self._skip_item(i, b)
                else:
                    oc = code[ob]
                    cc = {'{': '}', '(': ')', '[': ']'}[oc]
                    i = match_close(code, ob, oc, cc) + 1
            else:
                # struct / enum / const / static / type / use / union
                end = self._item_end(m.start(), b)
                it = Item()
                it.module = '::'.join(modpath)
                it.kind = kw
                nm = re.compile(r'\s*(' + IDENT + ')').match(code, m.end())
                it.name = nm.group(1) if nm else ''
                it.text = self.src[m.start():end]
                it.line = self.line_of(m.start())
                if header == '':
                    self.items.append(it)
                else:
                    it.module = '::'.join(modpath) + ' | ' + header
                    self.items.append(it)
                i = end

    def _find_block_open(self, a, b):
        code = self.code
        depth = 0
        j = a
        while j < b:
            ch = code[j]
            if ch in '([':
                depth += 1
            elif ch in ')]':
                depth -= 1
            elif ch == '{' and depth == 0:
                return j
            elif ch == ';' and depth == 0:
                return None
            j += 1
        return None

    def _find_any_open(self, a, b):
        code = self.code
        j = a
        while j < b:
            if code[j] in '{([':
                return j
            if code[j] == ';':
                return None
            j += 1
        return None

    def _item_end(self, a, b):
        """End offset (exclusive) of a non-fn item starting at a: up to ';' at depth 0 or
        to the close of its first top-level brace block (struct/enum bodies)."""
        code = self.code
        depth = 0
        j = a
        while j < b:
            ch = code[j]
            if ch in '([':
                depth += 1
            elif ch in ')]':
                depth -= 1
            elif ch == '{':
                close = match_close(code, j)
                # `const X: T = { ... };` / struct literal initialisers continue to ';'
                k = close + 1
                while k < b and code[k].isspace():
                    k += 1
                head = code[a:j]
                if re.match(r'\s*(pub(\s*\([^)]*\))?\s+)?(const|static)\b', head) and '=' in head:
                    j = close + 1
                    continue
                return close + 1
            elif ch == ';' and depth == 0:
                return j + 1
            j += 1
        return b

    def _skip_item(self, a, b):
        return self._item_end(a, b)

    def _record_fn(self, start, kw_end, b, modpath, header, in_macro):
        code = self.code
        nm = re.compile(r'\s*(' + IDENT + ')').match(code, kw_end)
        name = nm.group(1)
        # body open brace: first '{' at paren/bracket depth 0; ';' first => declaration
        depth = 0
        j = nm.end()
        ob = None
        while j < b:
            ch = code[j]
            if ch in '([':
                depth += 1
            elif ch in ')]':
                depth -= 1
            elif ch == '{' and depth == 0:
                ob = j
                break
            elif ch == ';' and depth == 0:
                break
            j += 1
        if ob is None:
            return j + 1
        close = match_close(code, ob)
        f = Fn()
        f.module = '::'.join(modpath)
        f.header = header
        f.name = name
        f.sig = self.src[start:ob]
        f.body = self.src[ob:close + 1]
        f.sig_start = start
        f.body_start = ob
        f.body_end = close + 1
        f.line = self.line_of(start)
        f.in_macro = in_macro
        self.fns.append(f)
        return close + 1

    # -- lookup ------------------------------------------------------------------
    def find_fn(self, module, header_pat, name):
        """header_pat: exact normalised header, or /regex/ matched with re.search."""
        res = []
        for f in self.fns:
            if f.module != module or f.name != name:
                continue
            if header_matches(f.header, header_pat):
                res.append(f)
        return res

    def find_item(self, module, kind, name):
        return [it for it in self.items if it.module == module and it.kind == kind and it.name == name]


def header_matches(header, pat):
    pat = pat.strip()
    if pat.startswith('/') and pat.endswith('/') and len(pat) >= 2:
        return re.search(pat[1:-1], header) is not None
    return norm_ws(pat) == header
