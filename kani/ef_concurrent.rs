//@ inject src/dict/elias_fano.rs
//@ fn dict::elias_fano::EliasFanoConcurrentBuilder::set
//@ harness ef_concurrent_set props=C03,C12 bounded="lower bits in a 3-word backend, upper bits in a 3-word backend (every l in 0..64, every n, index, value and previous content that fit); compare-exchange loops unwound twice with the unwinding assertion on" timeout=1200
//@ assume sequential semantics of the atomic operations only (one thread); the builder is assembled from its fields over symbolic storage (EliasFanoConcurrentBuilder::new's choice of l is under contract in ef.builder: lower_bits)
#[cfg(kani)]
mod verif_kani_ef_concurrent {
    use super::*;
    use core::sync::atomic::{AtomicUsize, Ordering};

    /// EliasFanoConcurrentBuilder::set(index, value) on ANY state of the two backends: afterwards the lower-bits field `index`
    /// holds the l low bits of the value, every other field is unchanged, the upper bit (value >> l) + index is set and every
    /// other upper bit is unchanged.
    #[kani::proof]
    #[kani::unwind(2)]
    fn ef_concurrent_set() {
        let l: usize = kani::any();
        let n: usize = kani::any();
        let index: usize = kani::any();
        let other: usize = kani::any();
        let value: usize = kani::any();
        let hlen: usize = kani::any();
        kani::assume(l < 64 && n <= 192 && n * l <= 192 && index < n && other < n && hlen <= 192);
        kani::assume((value >> l) < 192 && (value >> l) + index < hlen);
        let lw: [usize; 3] = kani::any();
        let hw: [usize; 3] = kani::any();
        let low_bits = unsafe { AtomicBitFieldVec::<usize, Vec<AtomicUsize>>::from_raw_parts(vec![AtomicUsize::new(lw[0]), AtomicUsize::new(lw[1]), AtomicUsize::new(lw[2])], l, n) };
        let high_bits = unsafe { AtomicBitVec::<Vec<AtomicUsize>>::from_raw_parts(vec![AtomicUsize::new(hw[0]), AtomicUsize::new(hw[1]), AtomicUsize::new(hw[2])], hlen) };
        let b = EliasFanoConcurrentBuilder { n, u: kani::any(), l, low_bits, high_bits };
        let old_other = b.low_bits.get_atomic(other, Ordering::Relaxed);
        unsafe { b.set(index, value) };
        let mask = if l == 0 { 0 } else { usize::MAX >> (64 - l) };
        assert!(b.low_bits.get_atomic(index, Ordering::Relaxed) == value & mask);
        if other != index { assert!(b.low_bits.get_atomic(other, Ordering::Relaxed) == old_other); }
        let p: usize = kani::any();
        kani::assume(p < hlen);
        let hp = (value >> l) + index;
        if p == hp { assert!(b.high_bits.get(p, Ordering::Relaxed)); } else { assert!(b.high_bits.get(p, Ordering::Relaxed) == ((hw[p / 64] >> (p % 64)) & 1 != 0)); }
        kani::cover!(l == 63 && index == 2, "vacuity probe: a field straddling two words is reachable");
    }
}
