//@ inject src/bits/bit_vec.rs
//@ fn bits::bit_vec::AtomicBitVec::{get, set, swap, get_unchecked, set_unchecked, swap_unchecked}
//@ harness atomic_bv_set_get props=C06,C14,C12 timeout=900
//@ harness atomic_bv_oob props=C06,C12 timeout=900
//@ harness atomic_bv_fill_flip props=C06,C14,C12 bounded="backend of 2 words (every length 0..=128, every content); the word loop is unwound 3 times with the unwinding assertion on" timeout=900
//@ assume sequential semantics of the atomic operations only (one thread): interleavings are C13, not applicable; backend [AtomicUsize; 2], every length 0..=128, arbitrary storage beyond the length
#[cfg(kani)]
mod verif_kani_atomic_bv {
    use super::*;
    use core::sync::atomic::{AtomicUsize, Ordering};

    /// single-threaded set / swap / get: afterwards get(i) == v, swap returns the old bit, every other bit of the backend
    /// (inside or beyond the length) is unchanged; for every length, index and contents (loop-free, complete for 2 words)
    #[kani::proof]
    fn atomic_bv_set_get() {
        let w0: usize = kani::any(); let w1: usize = kani::any();
        let len: usize = kani::any(); let i: usize = kani::any(); let v: bool = kani::any(); let use_swap: bool = kani::any();
        kani::assume(len <= 128 && i < len);
        let a = unsafe { AtomicBitVec::<[AtomicUsize; 2]>::from_raw_parts([AtomicUsize::new(w0), AtomicUsize::new(w1)], len) };
        let before = [w0, w1];
        let old_i = (before[i / 64] >> (i % 64)) & 1 != 0;
        assert!(a.get(i, Ordering::Relaxed) == old_i);
        if use_swap { assert!(a.swap(i, v, Ordering::Relaxed) == old_i); } else { a.set(i, v, Ordering::Relaxed); }
        assert!(a.get(i, Ordering::Relaxed) == v);
        let (after, _) = a.into_raw_parts();
        let p: usize = kani::any();
        kani::assume(p < 128 && p != i);
        assert!((after[p / 64].load(Ordering::Relaxed) >> (p % 64)) & 1 == (before[p / 64] >> (p % 64)) & 1);
        kani::cover!(i == 127 && v, "vacuity probe: last bit reachable");
    }

    /// "Out-of-range indices are rejected by a panic": for every length 0..=128 over two words and every index at or beyond the
    /// length (inside the backend or not) get / set / swap panic; `must_not_reach` turns a normal return into a non-panic failure
    #[kani::proof]
    #[kani::should_panic]
    fn atomic_bv_oob() {
        let w0: usize = kani::any(); let w1: usize = kani::any();
        let len: usize = kani::any(); let i: usize = kani::any(); let v: bool = kani::any(); let op: u8 = kani::any();
        kani::assume(len <= 128 && i >= len);
        let a = unsafe { AtomicBitVec::<[AtomicUsize; 2]>::from_raw_parts([AtomicUsize::new(w0), AtomicUsize::new(w1)], len) };
        match op { 0 => { let _ = a.get(i, Ordering::Relaxed); } 1 => { a.set(i, v, Ordering::Relaxed); } _ => { let _ = a.swap(i, v, Ordering::Relaxed); } }
        let p: *const u8 = core::ptr::null(); let _x = unsafe { *p };
    }

    /// fill / reset / flip (single thread): afterwards every bit below the length is the filled (resp. complemented) value and every
    /// storage bit at or beyond the length is unchanged (C14), for every length and every content of a 2-word backend
    #[kani::proof]
    #[kani::unwind(3)]
    fn atomic_bv_fill_flip() {
        let w0: usize = kani::any(); let w1: usize = kani::any();
        let len: usize = kani::any(); let v: bool = kani::any(); let op: u8 = kani::any();
        kani::assume(len <= 128 && op < 3);
        let mut a = unsafe { AtomicBitVec::<[AtomicUsize; 2]>::from_raw_parts([AtomicUsize::new(w0), AtomicUsize::new(w1)], len) };
        match op { 0 => a.fill(v, Ordering::Relaxed), 1 => a.reset(Ordering::Relaxed), _ => a.flip(Ordering::Relaxed) }
        let (after, _) = a.into_raw_parts();
        let before = [w0, w1];
        let p: usize = kani::any();
        kani::assume(p < 128);
        let ob = (before[p / 64] >> (p % 64)) & 1 != 0;
        let nb = (after[p / 64].load(Ordering::Relaxed) >> (p % 64)) & 1 != 0;
        if p >= len { assert!(nb == ob); } else { match op { 0 => assert!(nb == v), 1 => assert!(!nb), _ => assert!(nb != ob) } }
        kani::cover!(len == 127 && p == 127, "vacuity probe: partial last word reachable");
    }
}
