//@ inject src/bits/bit_field_vec.rs
//@ fn bits::bit_field_vec::AtomicBitFieldVec::{get_atomic, get_atomic_unchecked, set_atomic, set_atomic_unchecked}
//@ harness atomic_bfv_u64 props=C05,C14,C12 timeout=900
//@ harness atomic_bfv_u8 props=C05,C14,C12 timeout=900
//@ harness atomic_bfv_oob props=C05,C12 timeout=900
//@ harness atomic_bfv_oob_empty props=C05,C12 timeout=900
//@ assume sequential semantics of the atomic operations only (one thread): interleavings are C13, not applicable; backend [Atomic; 3]; the compare-exchange loops are given unwind 2 with the unwinding assertion on (a sequential CAS succeeds at once)
#[cfg(kani)]
mod verif_kani_atomic {
    use super::*;
    use core::sync::atomic::{AtomicU64, AtomicU8};

    /// single-threaded set_atomic / get_atomic: afterwards get_atomic(i) == v, every other element j is unchanged and
    /// every raw storage bit outside the field is unchanged; for every width 0..=BITS (including BITS), index and contents.
    macro_rules! atomic_harness {
        ($name:ident, $W:ty, $A:ty) => {
            #[kani::proof]
            #[kani::unwind(2)]
            fn $name() {
                let w0: $W = kani::any(); let w1: $W = kani::any(); let w2: $W = kani::any();
                let words: [$A; 3] = [<$A>::new(w0), <$A>::new(w1), <$A>::new(w2)];
                let bits = <$W>::BITS as usize;
                let width: usize = kani::any();
                let len: usize = kani::any();
                let i: usize = kani::any();
                let j: usize = kani::any();
                let v: $W = kani::any();
                kani::assume(width <= bits && len <= 3 * bits && len * width <= 3 * bits && i < len && j < len);
                let mask: $W = if width == 0 { 0 } else { <$W>::MAX >> (bits - width) };
                kani::assume(v & mask == v);
                let a = unsafe { AtomicBitFieldVec::<$W, [$A; 3]>::from_raw_parts(words, width, len) };
                let old_j = a.get_atomic(j, Ordering::Relaxed);
                a.set_atomic(i, v, Ordering::Relaxed);
                assert!(a.get_atomic(i, Ordering::Relaxed) == v);
                if j != i { assert!(a.get_atomic(j, Ordering::Relaxed) == old_j); }
                // raw frame
                let (after, _, _) = a.into_raw_parts();
                let p: usize = kani::any();
                kani::assume(p < 3 * bits && !(i * width <= p && p < i * width + width));
                let before = [w0, w1, w2];
                assert!((after[p / bits].load(Ordering::Relaxed) >> (p % bits)) & 1 == (before[p / bits] >> (p % bits)) & 1);
                kani::cover!(width == bits, "vacuity probe: full width reachable");
            }
        };
    }
    /// an index at or beyond the length (in particular any index of an EMPTY vector) is rejected by a panic before any
    /// storage access: every failure Kani finds must be that panic, never an out-of-bounds read or write
    #[kani::proof]
    #[kani::unwind(2)]
    #[kani::should_panic]
    fn atomic_bfv_oob() {
        let w0: u64 = kani::any(); let w1: u64 = kani::any();
        let words: [AtomicU64; 2] = [AtomicU64::new(w0), AtomicU64::new(w1)];
        let width: usize = kani::any(); let len: usize = kani::any(); let i: usize = kani::any(); let v: u64 = kani::any(); let write: bool = kani::any();
        kani::assume(width <= 64 && len <= 128 && len * width <= 128 && i >= len);
        let mask: u64 = if width == 0 { 0 } else { u64::MAX >> (64 - width) };
        kani::assume(v & mask == v);
        let a = unsafe { AtomicBitFieldVec::<u64, [AtomicU64; 2]>::from_raw_parts(words, width, len) };
        if write { a.set_atomic(i, v, Ordering::Relaxed); } else { let _ = a.get_atomic(i, Ordering::Relaxed); }
        must_not_reach();
    }
    /// `should_panic` alone only asks for SOME panicking execution: a call that returns normally runs into this non-panic failure
    /// (null dereference), which makes the harness fail, so EVERY execution has to panic before it
    fn must_not_reach() { let p: *const u8 = core::ptr::null(); let _x = unsafe { *p }; }
    /// the same over an EMPTY backend (length 0): any access must panic before touching storage
    #[kani::proof]
    #[kani::unwind(2)]
    #[kani::should_panic]
    fn atomic_bfv_oob_empty() {
        let words: [AtomicU64; 0] = [];
        let width: usize = kani::any(); let i: usize = kani::any(); let v: u64 = kani::any(); let write: bool = kani::any();
        kani::assume(width <= 64);
        let mask: u64 = if width == 0 { 0 } else { u64::MAX >> (64 - width) };
        kani::assume(v & mask == v);
        let a = unsafe { AtomicBitFieldVec::<u64, [AtomicU64; 0]>::from_raw_parts(words, width, 0) };
        if write { a.set_atomic(i, v, Ordering::Relaxed); } else { let _ = a.get_atomic(i, Ordering::Relaxed); }
        must_not_reach();
    }
    atomic_harness!(atomic_bfv_u64, u64, AtomicU64);
    atomic_harness!(atomic_bfv_u8, u8, AtomicU8);
}
