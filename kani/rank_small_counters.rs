//@ inject src/rank_sel/rank_small.rs
//@ fn rank_sel::rank_small::Block32Counters<2,9>::{all_rel,rel,set_rel}
//@ fn rank_sel::rank_small::Block32Counters<1,9>::{all_rel,rel,set_rel}
//@ fn rank_sel::rank_small::Block32Counters<1,10>::{all_rel,rel,set_rel}
//@ fn rank_sel::rank_small::Block32Counters<1,11>::{all_rel,rel,set_rel}
//@ fn rank_sel::rank_small::Block32Counters<3,13>::{all_rel,rel,set_rel}
//@ harness consts_match props=C01,C11 timeout=300
//@ harness counters_2_9 props=C01,C12 timeout=300
//@ harness counters_1_9 props=C01,C12 timeout=300
//@ harness counters_1_10 props=C01,C12 timeout=300
//@ harness counters_1_11 props=C01,C12 timeout=300
//@ harness counters_3_13 props=C01,C12 timeout=300
//@ assume little-endian target (the big-endian cfg branches of <3,13> are not compiled)
#[cfg(kani)]
mod verif_kani_counters {
    use super::*;

    /// Field algebra of the packed relative counters on the real (unsafe, read/write_unaligned) code, loop-free and complete:
    /// for every block content, every sub-block index w in 1..N (the constructors call set_rel for j >= 1 only; rel(0) is
    /// the implicit zero) with an empty field and every counter c <= w * (bits per sub-block), the range the constructor can produce:
    /// set_rel(w, c) makes rel(w) == c, leaves every other rel(k) and `absolute` unchanged; CBMC pointer checks in bounds.
    macro_rules! counters_harness {
        ($name:ident, $n:literal, $w:literal, $subblocks:literal, $subbits:literal) => {
            #[kani::proof]
            fn $name() {
                let mut b = Block32Counters::<$n, $w> { absolute: kani::any(), relative: kani::any() };
                let w: usize = kani::any();
                let k: usize = kani::any();
                let c: usize = kani::any();
                // the constructor stores in field w the number of ones in the first w sub-blocks of the block
                kani::assume(1 <= w && w < $subblocks && k < $subblocks && c <= w * $subbits);
                kani::assume(b.rel(w) == 0);
                let abs0 = b.absolute;
                let old_k = b.rel(k);
                b.set_rel(w, c);
                assert!(b.rel(w) == c);
                assert!(b.absolute == abs0);
                if k != w { assert!(b.rel(k) == old_k); }
                kani::cover!(c > 0 && k != w, "vacuity probe: assumptions are satisfiable");
                // a default block has every field zero
                let d = Block32Counters::<$n, $w>::default();
                assert!(d.absolute == 0 && d.rel(k) == 0);
            }
        };
    }
    /// the template parameters of contracts/rank_small.vc are the crate's constants
    #[kani::proof]
    fn consts_match() {
        assert!(RankSmall::<2, 9, BitVec, Box<[usize]>, Box<[Block32Counters<2, 9>]>>::WORDS_PER_BLOCK == 8);
        assert!(RankSmall::<2, 9, BitVec, Box<[usize]>, Box<[Block32Counters<2, 9>]>>::WORDS_PER_SUBBLOCK == 1);
        assert!(RankSmall::<1, 9, BitVec, Box<[usize]>, Box<[Block32Counters<1, 9>]>>::WORDS_PER_BLOCK == 8);
        assert!(RankSmall::<1, 9, BitVec, Box<[usize]>, Box<[Block32Counters<1, 9>]>>::WORDS_PER_SUBBLOCK == 2);
        assert!(RankSmall::<1, 10, BitVec, Box<[usize]>, Box<[Block32Counters<1, 10>]>>::WORDS_PER_BLOCK == 16);
        assert!(RankSmall::<1, 10, BitVec, Box<[usize]>, Box<[Block32Counters<1, 10>]>>::WORDS_PER_SUBBLOCK == 4);
        assert!(RankSmall::<1, 11, BitVec, Box<[usize]>, Box<[Block32Counters<1, 11>]>>::WORDS_PER_BLOCK == 32);
        assert!(RankSmall::<1, 11, BitVec, Box<[usize]>, Box<[Block32Counters<1, 11>]>>::WORDS_PER_SUBBLOCK == 8);
        assert!(RankSmall::<3, 13, BitVec, Box<[usize]>, Box<[Block32Counters<3, 13>]>>::WORDS_PER_BLOCK == 128);
        assert!(RankSmall::<3, 13, BitVec, Box<[usize]>, Box<[Block32Counters<3, 13>]>>::WORDS_PER_SUBBLOCK == 16);
        // space (C11): one counter block per WORDS_PER_BLOCK words takes 4 * (NUM_U32S + 1) bytes, no padding:
        // 12/64 = 18.75%, 8/64 = 12.5%, 8/128 = 6.25%, 8/256 = 3.125%, 16/1024 = 1.5625% of the bit vector
        assert!(core::mem::size_of::<Block32Counters<2, 9>>() == 12);
        assert!(core::mem::size_of::<Block32Counters<1, 9>>() == 8);
        assert!(core::mem::size_of::<Block32Counters<1, 10>>() == 8);
        assert!(core::mem::size_of::<Block32Counters<1, 11>>() == 8);
        assert!(core::mem::size_of::<Block32Counters<3, 13>>() == 16);
        assert!(core::mem::size_of::<crate::rank_sel::rank9::BlockCounters>() == 16);
    }
    counters_harness!(counters_2_9, 2, 9, 8, 64);
    counters_harness!(counters_1_9, 1, 9, 4, 128);
    counters_harness!(counters_1_10, 1, 10, 4, 256);
    counters_harness!(counters_1_11, 1, 11, 4, 512);
    counters_harness!(counters_3_13, 3, 13, 8, 1024);
}
