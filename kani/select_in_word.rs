//@ inject src/bits/bit_vec.rs
//@ fn common_traits::SelectInWord::select_in_word (usize, u64: broadword path, the one compiled without target feature bmi2)
//@ harness select_in_word_usize props=C02 timeout=1500
//@ assume this validates assumption A2 (the R5 stub `select_in_word` of bitvec.hinted / select.phase1) against the real dependency common_traits 0.11.4 as compiled by Kani (no bmi2: the broadword path with the SELECT_IN_BYTE table); a build with target feature bmi2 uses _pdep_u64 instead, which is not covered
#[cfg(kani)]
mod verif_kani_select_in_word {
    use common_traits::SelectInWord;

    /// for EVERY word and every rank below its popcount the result is the position of the one of that rank (loop-free, complete)
    #[kani::proof]
    fn select_in_word_usize() {
        let w: usize = kani::any();
        let r: usize = kani::any();
        kani::assume(r < w.count_ones() as usize);
        let k = w.select_in_word(r);
        assert!(k < 64);
        assert!((w >> k) & 1 == 1);
        let below = if k == 0 { 0 } else { w & (usize::MAX >> (64 - k)) };
        assert!(below.count_ones() as usize == r);
        kani::cover!(r == 63, "vacuity probe: the last rank of the full word is reachable");
    }
}
