//@ inject src/dict/rear_coded_list.rs
//@ fn dict::rear_coded_list::encode_int
//@ fn dict::rear_coded_list::decode_int
//@ harness rcl_int_roundtrip props=C09,C12 timeout=300
//@ assume Vec::<u8>::push as compiled by Kani (allocation of at most 9 + 3 bytes)
#[cfg(kani)]
mod verif_kani_rcl_int {
    use super::*;

    /// decode_int(encode_int(x) ++ rest) == (x, rest) for EVERY usize x; every read of decode_int stays inside the slice
    /// (loop-free: complete in x; `rest` is 3 symbolic bytes)
    #[kani::proof]
    fn rcl_int_roundtrip() {
        let x: usize = kani::any();
        let rest: [u8; 3] = kani::any();
        let mut data: Vec<u8> = Vec::with_capacity(12);
        encode_int(x, &mut data);
        let n = data.len();
        assert!(n >= 1 && n <= 9);
        data.push(rest[0]); data.push(rest[1]); data.push(rest[2]);
        let (y, tail) = decode_int(&data);
        assert!(y == x);
        kani::cover!(n == 9, "vacuity probe: the longest code is reachable");
        assert!(tail.len() == 3 && tail[0] == rest[0] && tail[1] == rest[1] && tail[2] == rest[2]);
    }
}
