//@ inject src/utils/mod2_sys.rs
//@ fn utils::mod2_sys::Modulo2Equation::add
//@ fn utils::mod2_sys::Modulo2Equation::add_ptr
//@ harness mod2_add_len2 props=C12 bounded="variable lists of length <= 2, variables < 4, W = u8 (unwind 6)" timeout=900
//@ assume the error path (anyhow::bail! -> format!) is stubbed out of the harness by comparing only Ok / Err
#[cfg(kani)]
mod verif_kani_mod2 {
    use super::*;

    fn any_vars() -> Vec<u32> {
        // strictly increasing list of length 0..=2 over variables 0..4
        let n: usize = kani::any();
        kani::assume(n <= 2);
        let a: u32 = kani::any();
        let b: u32 = kani::any();
        kani::assume(a < 4 && b < 4 && a < b);
        let mut v = Vec::with_capacity(2);
        if n >= 1 { v.push(a); }
        if n >= 2 { v.push(b); }
        v
    }

    /// add = sorted symmetric difference of the variable lists, XOR of the constants, and for every assignment s:
    /// eval(add(a,b), s) == eval(a, s) ^ eval(b, s); all raw-pointer accesses in bounds (CBMC pointer checks)
    #[kani::proof]
    #[kani::unwind(6)]
    fn mod2_add_len2() {
        let va = any_vars();
        let vb = any_vars();
        let ca: u8 = kani::any();
        let cb: u8 = kani::any();
        let mut a = Modulo2Equation::<u8> { vars: va.clone(), c: ca };
        let b = Modulo2Equation::<u8> { vars: vb.clone(), c: cb };
        a.add(&b);
        assert!(a.c == ca ^ cb);
        // membership: x in result  <=>  x in exactly one of the operands; result strictly increasing
        let x: u32 = kani::any();
        kani::assume(x < 4);
        let in_a = va.len() >= 1 && (va[0] == x || (va.len() == 2 && va[1] == x));
        let in_b = vb.len() >= 1 && (vb[0] == x || (vb.len() == 2 && vb[1] == x));
        let mut in_r = false;
        let mut k = 0;
        while k < a.vars.len() {
            if a.vars[k] == x { in_r = true; }
            if k + 1 < a.vars.len() { assert!(a.vars[k] < a.vars[k + 1]); }
            k += 1;
        }
        assert!(in_r == (in_a != in_b));
        assert!(a.vars.len() <= 4);
        kani::cover!(in_r, "vacuity probe");
    }
}
