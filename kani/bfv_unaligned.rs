//@ inject src/bits/bit_field_vec.rs
//@ fn bits::bit_field_vec::BitFieldVec::get_unaligned
//@ fn bits::bit_field_vec::BitFieldVec::get_unaligned_unchecked
//@ harness unaligned_u8 props=C10,C12 timeout=600
//@ harness unaligned_u16 props=C10,C12 timeout=600
//@ harness unaligned_u32 props=C10,C12 timeout=600
//@ harness unaligned_u64 props=C10,C12 timeout=600
//@ harness unaligned_usize props=C10,C12 timeout=600
//@ assume backend fixed to [W; 4] (complete in width, index, length and contents; bounded in the number of backend words); little-endian target; u128 not covered (CBMC cost)
#[cfg(kani)]
mod verif_kani_unaligned {
    use super::*;

    /// get_unaligned(i) == get(i) whenever the documented preconditions hold (admissible width, index < len, one padding word),
    /// the call does not panic, and the raw read stays inside the backend (CBMC pointer checks); loop-free.
    macro_rules! unaligned_harness {
        ($name:ident, $W:ty) => {
            #[kani::proof]
            fn $name() {
                let words: [$W; 4] = kani::any();
                let width: usize = kani::any();
                let len: usize = kani::any();
                let index: usize = kani::any();
                let bits = <$W>::BITS as usize;
                kani::assume(width <= bits - 8 + 2 || width == bits - 8 + 4 || width == bits);
                // the vector fits in the first three words: the fourth is the padding word of new_unaligned
                kani::assume(len <= 3 * bits && width <= bits && len * width <= 3 * bits);
                kani::assume(index < len);
                let v = unsafe { BitFieldVec::<$W, [$W; 4]>::from_raw_parts(words, width, len) };
                let a = v.get_unaligned(index);
                let b = v.get(index);
                assert!(a == b);
                kani::cover!(index > 0 && width > 0, "vacuity probe");
            }
        };
    }
    unaligned_harness!(unaligned_u8, u8);
    unaligned_harness!(unaligned_u16, u16);
    unaligned_harness!(unaligned_u32, u32);
    unaligned_harness!(unaligned_u64, u64);
    unaligned_harness!(unaligned_usize, usize);
}
