//@ inject src/rank_sel/select_zero_small.rs
//@ fn rank_sel::select_zero_small::SelectZeroSmall<2,9,C>::complete_select
//@ fn rank_sel::select_zero_small::SelectZeroSmall<1,9,C>::complete_select
//@ fn rank_sel::select_zero_small::SelectZeroSmall<1,10,C>::complete_select
//@ fn rank_sel::select_zero_small::SelectZeroSmall<1,11,C>::complete_select
//@ fn rank_sel::select_zero_small::SelectZeroSmall<3,13,C>::complete_select
//@ harness complete_select_zero_1_9 props=C02 timeout=600
//@ harness complete_select_zero_1_10 props=C02 timeout=600
//@ harness complete_select_zero_1_11 props=C02 timeout=600
//@ harness complete_select_zero_3_13 props=C02 timeout=900
//@ harness complete_select_zero_2_9 props=C02 timeout=1500
//@ assume the backend C is a recording mock: complete_select is checked against the arguments it hands to SelectZeroHinted::select_zero_hinted (variants <1,*> and <3,13>) or against the 16 words AsRef<[usize]> returns (variant <2,9>); the real backends' select_hinted is under contract in bitvec.hinted
//@ assume little-endian target (the big-endian cfg branches of Block32Counters<3,13> are not compiled)
#[cfg(kani)]
mod verif_kani_complete_select_zero {
    use super::*;
    use core::cell::Cell;

    /// backend that records what `complete_select` asks of it
    struct Mock {
        words: [usize; 16],
        seen: Cell<(usize, usize, usize)>,
    }
    impl<const N: usize, const W: usize> SmallCounters<N, W> for Mock {
        fn upper_counts(&self) -> &[usize] { &[] }
        fn counts(&self) -> &[Block32Counters<N, W>] { &[] }
    }
    impl AsRef<[usize]> for Mock { fn as_ref(&self) -> &[usize] { &self.words } }
    impl BitLength for Mock { fn len(&self) -> usize { 1024 } }
    impl NumBits for Mock { fn num_ones(&self) -> usize { 0 } }
    impl SelectZeroHinted for Mock {
        unsafe fn select_zero_hinted(&self, rank: usize, hint_pos: usize, hint_rank: usize) -> usize {
            self.seen.set((rank, hint_pos, hint_rank));
            hint_pos
        }
    }

    /// The broadword comparison of the sub-block search over the ZERO counters (j sub-blocks of bits minus the ones before them), loop-free and
    /// complete: for EVERY block whose relative counters are what a constructor can store (field 0 empty, fields non-decreasing, at most one
    /// sub-block of ones per step) and every rank of a zero inside the block, `complete_select` continues the search in the LAST sub-block with
    /// at most that many zeros before it, with the hint rank advanced by exactly those zeros.
    macro_rules! hinted_harness {
        ($name:ident, $n:literal, $w:literal, $subs:literal, $subbits:literal, $rel:expr) => {
            #[kani::proof]
            fn $name() {
                let b = Block32Counters::<$n, $w> { absolute: kani::any(), relative: $rel };
                kani::assume(b.rel(0) == 0);
                let mut j = 1;
                while j < $subs {
                    kani::assume(b.rel(j) >= b.rel(j - 1) && b.rel(j) - b.rel(j - 1) <= $subbits);
                    j += 1;
                }
                let rank_in_block: usize = kani::any();
                kani::assume(rank_in_block < $subs * $subbits);
                let hint_rank: usize = kani::any();
                kani::assume(hint_rank < (1 << 45));
                let hint_pos: usize = kani::any();
                kani::assume(hint_pos < (1 << 48));
                let s = SelectZeroSmall::<$n, $w, Mock> {
                    small_counters: Mock { words: [0; 16], seen: Cell::new((0, 0, 0)) },
                    inventory: Vec::new().into_boxed_slice(),
                    inventory_begin: Vec::new().into_boxed_slice(),
                    log2_ones_per_inventory: 0,
                };
                let r = unsafe { s.complete_select(&b, hint_pos, hint_rank + rank_in_block, hint_rank) };
                let mut k = 0;
                let mut j = 1;
                while j < $subs {
                    if j * $subbits - b.rel(j) <= rank_in_block { k = j; }
                    j += 1;
                }
                let (rank, pos, hr) = s.small_counters.seen.get();
                assert!(rank == hint_rank + rank_in_block);
                assert!(pos == hint_pos + k * $subbits);
                assert!(hr == hint_rank + (k * $subbits - b.rel(k)));
                assert!(r == pos);
                kani::cover!(k == $subs - 1, "vacuity probe: the last sub-block is reachable");
                kani::cover!(k == 0 && rank_in_block > 0, "vacuity probe: the first sub-block is reachable");
            }
        };
    }
    hinted_harness!(complete_select_zero_1_9, 1, 9, 4, 128, [kani::any()]);
    hinted_harness!(complete_select_zero_1_10, 1, 10, 4, 256, [kani::any()]);
    hinted_harness!(complete_select_zero_1_11, 1, 11, 4, 512, [kani::any()]);
    hinted_harness!(complete_select_zero_3_13, 3, 13, 8, 1024, [kani::any(), kani::any(), kani::any()]);

    /// <2,9> finishes inside the word: for every content of a block of eight words whose counters are the running popcounts
    /// and every rank below the zeros of the block, the result is the position of the zero of that rank.
    #[kani::proof]
    fn complete_select_zero_2_9() {
        let words: [usize; 16] = kani::any();
        let blk: usize = kani::any();
        kani::assume(blk < 2);
        let base = 8 * blk;
        let b = Block32Counters::<2, 9> { absolute: kani::any(), relative: [kani::any(), kani::any()] };
        kani::assume(b.rel(0) == 0);
        let mut j = 1;
        while j < 8 {
            kani::assume(b.rel(j) == b.rel(j - 1) + words[base + j - 1].count_ones() as usize);
            j += 1;
        }
        let total_zeros = 512 - (b.rel(7) + words[base + 7].count_ones() as usize);
        let rank_in_block: usize = kani::any();
        kani::assume(rank_in_block < total_zeros);
        let hint_rank: usize = kani::any();
        kani::assume(hint_rank < (1 << 45));
        let s = SelectZeroSmall::<2, 9, Mock> {
            small_counters: Mock { words, seen: Cell::new((0, 0, 0)) },
            inventory: Vec::new().into_boxed_slice(),
            inventory_begin: Vec::new().into_boxed_slice(),
            log2_ones_per_inventory: 0,
        };
        let r = unsafe { s.complete_select(&b, blk * 512, hint_rank + rank_in_block, hint_rank) };
        assert!(r >= blk * 512 && r < blk * 512 + 512);
        let w = r / 64;
        let bit = r % 64;
        assert!((words[w] >> bit) & 1 == 0);
        let below = if bit == 0 { 0 } else { !words[w] & (usize::MAX >> (64 - bit)) };
        assert!((w - base) * 64 - b.rel(w - base) + below.count_ones() as usize == rank_in_block);
        kani::cover!(w - base == 7, "vacuity probe: the last word is reachable");
    }
}
