//@ inject src/bits/bit_field_vec.rs
//@ fn bits::bit_field_vec::BitFieldVec::apply_in_place_unchecked
//@ fn traits::bit_field_slice::BitFieldSliceMut::apply_in_place
//@ harness apply_u8_3words props=C10,C14,C12 bounded="W = u8, backend [u8; 3] (at most 2 words of elements + spare word), at most 6 elements, unwind 10" timeout=900
//@ assume FnMut call sequences are outside Verus' closure support: this harness is a bounded stand-in (never counted as proved)
#[cfg(kani)]
mod verif_kani_apply {
    use super::*;

    /// apply_in_place(f) calls f exactly once per element, in index order, on the current value, stores each result,
    /// and leaves every storage bit beyond len * width untouched (spare bits of the last word and spare words).
    #[kani::proof]
    #[kani::unwind(10)]
    fn apply_u8_3words() {
        let words: [u8; 3] = kani::any();
        let width: usize = kani::any();
        let len: usize = kani::any();
        kani::assume(width <= 8 && len <= 6 && len * width <= 16);
        let mut v = unsafe { BitFieldVec::<u8, [u8; 3]>::from_raw_parts(words, width, len) };
        let mut before = [0u8; 6];
        let mut i = 0;
        while i < len { before[i] = v.get(i); i += 1; }
        let mask: u8 = if width == 0 { 0 } else { u8::MAX >> (8 - width) };
        let mut seen = [0u8; 8];
        let mut calls = 0usize;
        v.apply_in_place(|x| { if calls < 8 { seen[calls] = x; } calls += 1; (!x) & mask });
        assert!(calls == len);
        let mut i = 0;
        while i < len {
            assert!(seen[i] == before[i]);
            assert!(v.get(i) == (!before[i]) & mask);
            i += 1;
        }
        let (after, _, _) = v.into_raw_parts();
        let p: usize = kani::any();
        kani::assume(p >= len * width && p < 24);
        assert!((after[p / 8] >> (p % 8)) & 1 == (words[p / 8] >> (p % 8)) & 1);
        kani::cover!(len == 3 && width == 5, "vacuity probe");
    }
}
