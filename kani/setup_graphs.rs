//@ inject src/func/shard_edge.rs
//@ fn func::shard_edge::fuse::FuseLge3NoShards::set_up_graphs (inherent)
//@ fn func::shard_edge::fuse::FuseLge3Shards::set_up_graphs
//@ harness setup_graphs_noshards props=C16 timeout=900
//@ harness setup_graphs_shards props=C16 timeout=900
//@ assume the f64 helpers c(), lin_log2_seg_size(), log2_seg_size() (ln, lambert_w0) are stubbed: they return ANY value in the ranges their bodies can produce (1.0 <= c <= 1.3; 1 <= log2 segment size <= 28 with n >> log2 < 2^30, so that the code's own u32 conversions / size assertion do not reject the parameters); the rest of set_up_graphs (f64 multiplication, ceil, integer clamping, u32 conversion) is the real code
#[cfg(kani)]
mod verif_kani_setup_graphs {
    use super::fuse::*;
    use super::*;

    fn any_c(_arity: usize, _n: usize) -> f64 { let c: f64 = kani::any(); kani::assume(c >= 1.0 && c <= 1.3); c }
    /// any segment-size exponent in range that is not absurdly small for the key count (so that l fits u32, as in real runs)
    fn any_log2(_arity: usize, n: usize) -> u32 { let x: u32 = kani::any(); kani::assume(x >= 1 && x <= 28 && (n >> x) < (1usize << 30)); x }

    /// whatever the helpers return in range, set_up_graphs leaves parameters the edge contracts rely on: 1 <= l
    /// (so that num_vertices = (l + 2) << log2_seg_size covers the three segments an edge spans), or it panics on its own assertion
    #[kani::proof]
    #[kani::stub(FuseLge3Shards::lin_log2_seg_size, any_log2)]
    #[kani::stub(FuseLge3NoShards::log2_seg_size, any_log2)]
    #[kani::stub(FuseLge3NoShards::c, any_c)]
    fn setup_graphs_noshards() {
        let mut e = FuseLge3NoShards::default();
        let n: usize = kani::any();
        kani::assume(n <= 1usize << 40);
        // (stubbed helpers) the segment size is not absurdly small for the key count, so that l fits u32 as in real runs
        let _ = <FuseLge3NoShards as ShardEdge<[u64; 2], 3>>::set_up_graphs(&mut e, n, n);
        let l = <FuseLge3NoShards as ShardEdge<[u64; 2], 3>>::num_sort_keys(&e);
        assert!(l >= 1);
        kani::cover!(n == 3 && l == 1, "vacuity probe: tiny n reachable");
        kani::cover!(l > 1000, "vacuity probe: large graphs reachable");
    }

    #[kani::proof]
    #[kani::stub(FuseLge3Shards::lin_log2_seg_size, any_log2)]
    #[kani::stub(FuseLge3Shards::log2_seg_size, any_log2)]
    #[kani::stub(FuseLge3Shards::c, any_c)]
    fn setup_graphs_shards() {
        let mut e = FuseLge3Shards::default();
        let n: usize = kani::any();
        let max_shard: usize = kani::any();
        kani::assume(n <= 1usize << 40 && max_shard <= n && max_shard <= 1usize << 31);
        let _ = <FuseLge3Shards as ShardEdge<[u64; 2], 3>>::set_up_graphs(&mut e, n, max_shard);
        let l = <FuseLge3Shards as ShardEdge<[u64; 2], 3>>::num_sort_keys(&e);
        assert!(l >= 1);
        kani::cover!(max_shard == 0 && l == 1, "vacuity probe");
    }
}
