//@ inject src/utils/sig_store.rs
//@ fn utils::sig_store::<[u64; 2] as Sig>::high_bits
//@ fn utils::sig_store::<[u64; 1] as Sig>::high_bits
//@ harness sig_high_bits_2 props=C16 timeout=300
//@ harness sig_high_bits_1 props=C16 timeout=300
//@ assume composition with unit shard_edge: FuseLge3Shards::shard(sig) == (sig[0] >> shard_bits_shift) >> 1 is proved there (shard_spec); here the store's high_bits is proved equal to the same expression with shard_bits_shift = 63 - h
#[cfg(kani)]
mod verif_kani_high_bits {
    use super::*;

    /// the shard number used by the signature store (top h bits of the signature, h = shard_high_bits() <= 63) is the
    /// value computed by ShardEdge::shard: (sig[0] >> (63 - h)) >> 1; loop-free, complete in sig and h
    #[kani::proof]
    fn sig_high_bits_2() {
        let sig: [u64; 2] = kani::any();
        let h: u32 = kani::any();
        kani::assume(h <= 63);
        let mask: u64 = (1u64 << h) - 1;
        let r = sig.high_bits(h, mask);
        assert!(r == (sig[0] >> (63 - h)) >> 1);
        assert!(r <= mask);
        kani::cover!(h == 63 && r > 5, "vacuity probe");
    }
    #[kani::proof]
    fn sig_high_bits_1() {
        let sig: [u64; 1] = kani::any();
        let h: u32 = kani::any();
        kani::assume(h <= 63);
        let mask: u64 = (1u64 << h) - 1;
        let r = sig.high_bits(h, mask);
        assert!(r == (sig[0] >> (63 - h)) >> 1);
        kani::cover!(h == 7 && r == 100, "vacuity probe");
    }
}
